package main

import (
	"fmt"
	"go/constant"
	"go/token"
	"go/types"
	"sort"
	"strings"

	"golang.org/x/tools/go/ssa"
)

// ---------------------------------------------------------------- state

type deferRec struct {
	instr *ssa.Defer
	guard string
	args  []Val
	fnv   Val
}

type State struct {
	heap   map[string]string
	alc    string
	defers []deferRec
}

func (s *State) clone() *State {
	n := &State{heap: make(map[string]string, len(s.heap)), alc: s.alc}
	for k, v := range s.heap {
		n.heap[k] = v
	}
	n.defers = append([]deferRec(nil), s.defers...)
	return n
}

type Obl struct {
	Name    string
	Kind    string
	Fn      string
	Formula string
	Prefix  int
	Clause  *Clause
	Text    string
	x       *Exec
	Extra   []string // extra assertions placed after the prefix (lemma hypotheses)
	Blk     int
}

type retRec struct {
	guard string
	vals  []Val
	st    *State
	instr *ssa.Return
}

type loopInfo struct {
	entryState *State // program state when the loop was entered (for entry(e) in invariants)
	header  *ssa.BasicBlock
	body    map[*ssa.BasicBlock]bool
	ordinal int
	varTerm []string // decreases terms evaluated at header
	frameHeaps []string
	phiVals map[*ssa.Phi]Val
}

type Frame struct {
	fn      *ssa.Function
	vals    map[ssa.Value]Val
	reach   map[*ssa.BasicBlock]string
	outs    map[*ssa.BasicBlock]*State
	edges   map[[2]int]string
	rets    []retRec
	top     bool
	loops   map[*ssa.BasicBlock]*loopInfo
	entry   *State
	guard0  string
	con     *Contract
	tag     string // naming suffix for inlined frames
	panicsSeen int
	depth   int
}

type Exec struct {
	eng      *Engine
	fn       *ssa.Function
	con      *Contract
	items    []string
	itemBlk  []int // block (of the top-level function) an assertion belongs to; -1 = global
	curBlk   int
	rowDefs  map[string]string
	heapAlc  map[string]string
	offBase  map[string][2]string
	anc      map[int]map[int]bool
	obls     []*Obl
	n        int
	declared map[string]bool
	warnings []string
	fatals   []string
	assumed  map[string]bool // callees havoc-abstracted without contract
	usedContracts map[string]bool
	trustedUsed   map[string]bool
	oblNames map[string]int
	tagIDs   map[string]int
	topMods  []modLoc
	hasMods  bool
	inlineDepth int
	curClo   []Val
}

func newExec(eng *Engine, fn *ssa.Function, con *Contract) *Exec {
	return &Exec{eng: eng, fn: fn, con: con, declared: map[string]bool{}, assumed: map[string]bool{},
		usedContracts: map[string]bool{}, trustedUsed: map[string]bool{}, oblNames: map[string]int{}, tagIDs: map[string]int{}}
}

func (x *Exec) warn(f string, a ...interface{}) {
	x.warnings = append(x.warnings, fmt.Sprintf(f, a...))
}
func (x *Exec) fatal(f string, a ...interface{}) {
	x.fatals = append(x.fatals, fmt.Sprintf(f, a...))
}

func (x *Exec) emit(s string) {
	x.items = append(x.items, s)
	blk := x.curBlk
	if strings.HasPrefix(s, "(declare-") || strings.HasPrefix(s, "(define-sort") {
		blk = -1
	}
	x.itemBlk = append(x.itemBlk, blk)
}

// emitGlobal adds an assertion that is part of every obligation (axioms).
func (x *Exec) emitGlobal(s string) {
	x.items = append(x.items, s)
	x.itemBlk = append(x.itemBlk, -1)
}

func (x *Exec) declare(name, sort string) {
	if x.declared[name] {
		return
	}
	if strings.Contains(sort, "Str") {
		x.declSort("Str")
	}
	x.declared[name] = true
	x.emit(fmt.Sprintf("(declare-fun %s () %s)", name, sort))
}

func (x *Exec) declareFun(name, sig string) {
	if x.declared[name] {
		return
	}
	if strings.Contains(sig, "Str") && name != "strlen" {
		x.declSort("Str")
	}
	x.declared[name] = true
	x.emit(fmt.Sprintf("(declare-fun %s %s)", name, sig))
}

func (x *Exec) fresh(prefix, sort string) string {
	x.n++
	name := fmt.Sprintf("%s!%d", sanitize(prefix), x.n)
	x.declare(name, sort)
	return name
}

// define introduces a named constant equal to term (keeps VCs linear in size).
func (x *Exec) define(prefix, sort, term string) string {
	if len(term) < 24 && !strings.Contains(term, " ") {
		return term
	}
	n := x.fresh(prefix, sort)
	x.emit(fmt.Sprintf("(assert (= %s %s))", n, term))
	return n
}

func (x *Exec) assume(guard, f string) {
	if f == "" || f == "true" {
		return
	}
	x.emit(fmt.Sprintf("(assert %s)", implies(guard, f)))
}

func (x *Exec) oblige(name, kind, guard, f string, cl *Clause, text string) {
	if x.inlineDepth > 0 && kind == "nopanic" {
		// safety obligations of an inlined callee body belong to the callee (checked when it is under
		// contract itself); at the call site they are assumed
		x.assume(guard, f)
		return
	}
	if f == "true" {
		// still count trivial obligations? keep them: they are discharged trivially.
	}
	x.oblNames[name]++
	if c := x.oblNames[name]; c > 1 {
		name = fmt.Sprintf("%s#%d", name, c)
	}
	x.obls = append(x.obls, &Obl{Name: name, Kind: kind, Fn: funcKey(x.fn), Formula: implies(guard, f), Prefix: len(x.items), Clause: cl, Text: text, x: x, Blk: x.curBlk})
}

// ---------------------------------------------------------------- heaps

func (x *Exec) heap(st *State, name, sort string) string {
	if v, ok := st.heap[name]; ok {
		if strings.HasPrefix(v, "?") {
			// lazily havoced heap: materialise a fresh version now that the sort is known
			x.eng.heapSorts[name] = sort
			x.declare(name+"!0", sort)
			nv := fmt.Sprintf("%s!h%s", name, sanitize(v[1:]))
			if !x.declared[nv] {
				x.declare(nv, sort)
				x.counterMono(name, sort, nv, name+"!0")
			}
			st.heap[name] = nv
			return nv
		}
		return v
	}
	if k := strings.Index(name, "$arg"); k > 0 && strings.HasPrefix(name, "G$calls$") {
		if mk, ok := st.heap[name[:k]+"$arg*"]; ok && strings.HasPrefix(mk, "?") {
			// the call log of this function was havoced (by a callee's frame, a loop or a callback) before this
			// record was first referenced
			x.eng.heapSorts[name] = sort
			x.declare(name+"!0", sort)
			nv := fmt.Sprintf("%s!h%s", name, sanitize(mk[1:]))
			if !x.declared[nv] {
				x.declare(nv, sort)
				x.counterMono(name, sort, nv, name+"!0")
			}
			st.heap[name] = nv
			return nv
		}
	}
	if all, ok := st.heap["*"]; ok && !strings.HasPrefix(name, "IT$") && !strings.HasPrefix(name, "A$") && !(strings.HasPrefix(all, "?allng") && isGhostHeap(name, x.eng)) {
		// everything was havoced earlier on this path before this heap was first referenced
		x.eng.heapSorts[name] = sort
		x.declare(name+"!0", sort)
		nv := fmt.Sprintf("%s!h%s", name, sanitize(all[1:]))
		if !x.declared[nv] {
			x.declare(nv, sort)
			x.counterMono(name, sort, nv, name+"!0")
		}
		st.heap[name] = nv
		return nv
	}
	v0 := name + "!0"
	if !x.declared[v0] && strings.HasSuffix(name, ".arr") && sort == "(Array Int Int)" && strings.HasPrefix(name, "H$") {
		// well-typed entry heap: every backing array referenced from a slice-typed field existed at entry
		x.declare(v0, sort)
		x.emitGlobal(fmt.Sprintf("(assert (forall ((o Int)) (! (and (<= 0 (select %s o)) (<= (select %s o) alc!0)) :pattern ((select %s o)))))", v0, v0, v0))
	}
	x.declare(v0, sort)
	x.eng.heapSorts[name] = sort
	st.heap[name] = v0
	return v0
}

func (x *Exec) setHeap(st *State, name, sort, term string) {
	x.eng.heapSorts[name] = sort
	x.n++
	v := fmt.Sprintf("%s!%d", name, x.n)
	x.declare(v, sort)
	x.emit(fmt.Sprintf("(assert (= %s %s))", v, term))
	st.heap[name] = v
}

// noteStoreAlc records, after a program store into heap `name`, that every reference held by the new version
// existed when the store was executed (the stored value exists now, the rest comes from the previous version).
// Only program stores are recorded: versions installed by callee contracts, havoc or state merges may hold
// objects allocated by the callee and fall back to the allocation counter at load time.
func (x *Exec) noteStoreAlc(st *State, name string) {
	if st.alc == "" {
		return
	}
	if x.heapAlc == nil {
		x.heapAlc = map[string]string{}
	}
	x.heapAlc[st.heap[name]] = st.alc
}

// allocBound: an upper bound for every reference stored in the current version of a heap: the allocation
// counter at the time that version was created (entry versions: the entry counter), else the current one.
func (x *Exec) allocBound(st *State, heapName string) string {
	v, ok := st.heap[heapName]
	if ok {
		if strings.HasSuffix(v, "!0") {
			return "alc!0"
		}
		if a, ok := x.heapAlc[v]; ok {
			return a
		}
	}
	return st.alc
}

func (x *Exec) havocHeap(st *State, name string) {
	sort, ok := x.eng.heapSorts[name]
	if !ok {
		return // never referenced: nothing known about it anyway
	}
	// make sure the initial version exists so old() refers to something stable
	prev := x.heap(st, name, sort)
	x.n++
	v := fmt.Sprintf("%s!%d", name, x.n)
	x.declare(v, sort)
	st.heap[name] = v
	x.counterMono(name, sort, v, prev)
}

// counterMono: ghost call counters only ever grow, whatever havoced them (a callee's frame, a loop, a callback)
func (x *Exec) counterMono(name, sort, nv, prev string) {
	if name == "G$sent" && sort == "(Array Int Int)" {
		// the number of values sent on a channel only grows
		x.emitGlobal(fmt.Sprintf("(assert (forall ((r$c Int)) (! (>= (select %s r$c) (select %s r$c)) :pattern ((select %s r$c)))))", nv, prev, nv))
		return
	}
	if !strings.HasPrefix(name, "G$calls$") {
		return
	}
	switch {
	case strings.HasSuffix(name, "$argtotal") && sort == "Int":
		x.emitGlobal(fmt.Sprintf("(assert (>= %s %s))", nv, prev))
	case !strings.Contains(name, "$arg") && sort == "(Array Int Int)":
		x.emitGlobal(fmt.Sprintf("(assert (forall ((r$c Int)) (! (>= (select %s r$c) (select %s r$c)) :pattern ((select %s r$c)))))", nv, prev, nv))
	}
}

func arrSort(elem string) string  { return "(Array Int " + elem + ")" }
func arr2Sort(elem string) string { return "(Array Int (Array Int " + elem + "))" }

// components of a non-struct type stored in a location: suffix -> sort
type comp struct {
	suffix string
	sort   string
}

func (x *Exec) comps(t types.Type) []comp {
	switch kindOf(t) {
	case KInt, KPtr:
		return []comp{{"", "Int"}}
	case KBool:
		return []comp{{"", "Bool"}}
	case KStr:
		return []comp{{"", "Str"}}
	case KReal:
		return []comp{{"", "Real"}}
	case KSlice:
		return []comp{{".arr", "Int"}, {".off", "Int"}, {".len", "Int"}, {".cap", "Int"}}
	case KIface:
		return []comp{{".tag", "Int"}, {".ref", "Int"}}
	}
	return nil
}

func (x *Exec) readComp(st *State, loc *Loc, c comp) string {
	name := loc.Base + c.suffix
	switch loc.Kind {
	case LField, LCell:
		h := x.heap(st, name, arrSort(c.sort))
		return sx("select", h, loc.Ref)
	case LElem:
		h := x.heap(st, name, arr2Sort(c.sort))
		if loc.Off != "" {
			row := sx("select", h, loc.Arr)
			if !strings.Contains(row, "$q") {
				// name the (ground) row so that it exists as a ground term for E-matching even when the
				// access itself sits under a quantifier
				key := fmt.Sprintf("%d|%s", x.curBlk, row)
				if x.rowDefs == nil {
					x.rowDefs = map[string]string{}
				}
				if n, ok := x.rowDefs[key]; ok {
					row = n
				} else {
					n := x.define("row", "(Array Int "+c.sort+")", row)
					x.rowDefs[key] = n
					row = n
				}
			}
			return sx(x.elFn(c.sort), row, loc.Off, loc.Rel)
		}
		return sx("select", sx("select", h, loc.Arr), loc.Idx)
	}
	panic("bad loc")
}

// elFn: pattern-friendly element access el(row, off, k) = row[off+k]
func (x *Exec) elFn(sort string) string {
	name := "el$" + sort
	if !x.declared[name] {
		if sort == "Str" {
			x.declSort("Str")
		}
		x.declareFun(name, fmt.Sprintf("((Array Int %s) Int Int) %s", sort, sort))
		x.emitGlobal(fmt.Sprintf("(assert (forall ((r (Array Int %s)) (o Int) (k Int)) (! (= (%s r o k) (select r (+ o k))) :pattern ((%s r o k)))))", sort, name, name))
	}
	return name
}

func (x *Exec) writeComp(st *State, loc *Loc, c comp, v string) {
	name := loc.Base + c.suffix
	switch loc.Kind {
	case LField, LCell:
		h := x.heap(st, name, arrSort(c.sort))
		x.setHeap(st, name, arrSort(c.sort), sx("store", h, loc.Ref, v))
		x.noteStoreAlc(st, name)
	case LElem:
		h := x.heap(st, name, arr2Sort(c.sort))
		x.setHeap(st, name, arr2Sort(c.sort), sx("store", h, loc.Arr, sx("store", sx("select", h, loc.Arr), loc.Idx, v)))
		x.noteStoreAlc(st, name)
	}
}

// address (Int ref) of a struct-typed location
func (x *Exec) structAddr(loc *Loc) string {
	switch loc.Kind {
	case LCell:
		return loc.Ref
	case LField:
		fn := "sub$" + strings.TrimPrefix(loc.Base, "H$")
		x.declSub(fn)
		return sx(fn, loc.Ref)
	case LElem:
		fn := "eaddr$" + strings.TrimPrefix(loc.Base, "E$")
		x.declEaddr(fn)
		if loc.Off != "" {
			// element of a slice: pattern-friendly form selem(arr, off, k) = eaddr(arr, off + k)
			return sx(x.selemFn(fn), loc.Arr, loc.Off, loc.Rel)
		}
		return sx(fn, loc.Arr, loc.Idx)
	}
	panic("bad loc")
}

// offBaseOf: (base, rel) such that off = base + rel, where base is the offset of the slice the value was cut from
func (x *Exec) offBaseOf(off string) (string, string) {
	if b, ok := x.offBase[off]; ok {
		return b[0], b[1]
	}
	return off, "0"
}

func (x *Exec) setOffBase(off, base, rel string) {
	if off == base {
		return
	}
	if x.offBase == nil {
		x.offBase = map[string][2]string{}
	}
	x.offBase[off] = [2]string{base, rel}
}

// selemFn: address of the k-th element of a slice with backing array arr and offset off (struct elements)
func (x *Exec) selemFn(ea string) string {
	name := "s" + ea
	if !x.declared[name] {
		x.declareFun(name, "(Int Int Int) Int")
		x.emitGlobal(fmt.Sprintf("(assert (forall ((a Int) (o Int) (k Int)) (! (= (%s a o k) (%s a (+ o k))) :pattern ((%s a o k)))))", name, ea, name))
	}
	return name
}

func (x *Exec) declSub(fn string) {
	if x.declared[fn] {
		return
	}
	x.declareFun(fn, "(Int) Int")
	x.declareFun(fn+"$inv", "(Int) Int")
	x.tagIDs[fn] = len(x.tagIDs) + 1
	x.declareFun("addrkind", "(Int) Int")
	x.declRoot()
	x.emitGlobal(fmt.Sprintf("(assert (forall ((p Int)) (! (and (< (%s p) 0) (= (%s$inv (%s p)) p) (= (addrkind (%s p)) %d) (= (root (%s p)) (root p))) :pattern ((%s p)))))", fn, fn, fn, fn, x.tagIDs[fn], fn, fn))
}

func (x *Exec) declEaddr(fn string) {
	if x.declared[fn] {
		return
	}
	x.declareFun(fn, "(Int Int) Int")
	x.declareFun(fn+"$a", "(Int) Int")
	x.declareFun(fn+"$i", "(Int) Int")
	x.tagIDs[fn] = len(x.tagIDs) + 1
	x.declareFun("addrkind", "(Int) Int")
	x.declRoot()
	x.emitGlobal(fmt.Sprintf("(assert (forall ((a Int) (i Int)) (! (and (< (%s a i) 0) (= (%s$a (%s a i)) a) (= (%s$i (%s a i)) i) (= (addrkind (%s a i)) %d) (= (root (%s a i)) a)) :pattern ((%s a i)))))", fn, fn, fn, fn, fn, fn, x.tagIDs[fn], fn, fn))
}

// load a value of type t from loc
func (x *Exec) load(st *State, loc *Loc, t types.Type) Val {
	v := x.load0(st, loc, t)
	// well-typed memory: integer fields hold values of their type, slice headers are well formed.
	// Only stated for ground addresses (terms with quantifier-bound variables contain "$q").
	switch vv := v.(type) {
	case Sc:
		if kindOf(t) == KInt && !strings.Contains(vv.T, "$q") {
			x.assumeTyped("true", t, v)
		}
		if kindOf(t) == KPtr && !strings.Contains(vv.T, "$q") && st.alc != "" {
			x.assume("true", sx("<=", vv.T, x.allocBound(st, loc.Base)))
		}
	case SliceV:
		if !strings.Contains(vv.Arr+vv.Len, "$q") {
			x.assumeTyped("true", t, v)
			if st.alc != "" {
				x.assume("true", sx("<=", vv.Arr, x.allocBound(st, loc.Base+".arr")))
			}
		}
	}
	return v
}

func (x *Exec) load0(st *State, loc *Loc, t types.Type) Val {
	switch kindOf(t) {
	case KInt, KPtr, KBool, KStr, KReal:
		c := x.comps(t)[0]
		v := Sc{T: x.readComp(st, loc, c), S: c.sort}
		if _, ok := t.Underlying().(*types.Signature); ok && loc.Kind == LField {
			v.Origin = strings.ReplaceAll(strings.TrimPrefix(loc.Base, "H$"), "$", ".")
		}
		return v
	case KSlice:
		cs := x.comps(t)
		return SliceV{x.readComp(st, loc, cs[0]), x.readComp(st, loc, cs[1]), x.readComp(st, loc, cs[2]), x.readComp(st, loc, cs[3])}
	case KIface:
		cs := x.comps(t)
		return IfaceV{x.readComp(st, loc, cs[0]), x.readComp(st, loc, cs[1])}
	case KStruct:
		return x.loadStruct(st, x.structAddr(loc), t)
	}
	x.warn("load of unsupported type %s: havoc", t)
	return x.havocVal(t, "ld")
}

func (x *Exec) loadStruct(st *State, addr string, t types.Type) Val {
	s := t.Underlying().(*types.Struct)
	out := StructV{}
	for i := 0; i < s.NumFields(); i++ {
		f := s.Field(i)
		out.F = append(out.F, x.load(st, &Loc{Kind: LField, Base: fieldHeap(t, f), Ref: addr}, f.Type()))
	}
	return out
}

func (x *Exec) store(st *State, loc *Loc, t types.Type, v Val) {
	switch kindOf(t) {
	case KInt, KPtr, KBool, KStr, KReal:
		sc, ok := v.(Sc)
		if !ok {
			x.fatal("store: scalar expected for %s, got %T", t, v)
			return
		}
		x.writeComp(st, loc, x.comps(t)[0], sc.T)
	case KSlice:
		sv, ok := v.(SliceV)
		if !ok {
			x.fatal("store: slice expected, got %T", v)
			return
		}
		cs := x.comps(t)
		x.writeComp(st, loc, cs[0], sv.Arr)
		x.writeComp(st, loc, cs[1], sv.Off)
		x.writeComp(st, loc, cs[2], sv.Len)
		x.writeComp(st, loc, cs[3], sv.Cap)
	case KIface:
		iv, ok := v.(IfaceV)
		if !ok {
			x.fatal("store: iface expected, got %T", v)
			return
		}
		cs := x.comps(t)
		x.writeComp(st, loc, cs[0], iv.Tag)
		x.writeComp(st, loc, cs[1], iv.Ref)
	case KStruct:
		x.storeStruct(st, x.structAddr(loc), t, v)
	default:
		if at, ok := t.Underlying().(*types.Array); ok {
			// an array value stored as part of a struct: the element heap of its element type becomes unknown
			// (sound, coarse; the arrays in reach are padding fields of syscall structures)
			x.warn("store of an array value inside a struct (%s): element heap havoc", t)
			et := at.Elem()
			if kindOf(et) == KStruct || kindOf(et) == KArray {
				x.applyMods(st, []modLoc{{heap: "*nonghost", whole: true}})
				return
			}
			for _, c := range x.comps(et) {
				x.heap(st, "E$"+typeKey(et)+c.suffix, arr2Sort(c.sort))
				x.havocHeapForce(st, "E$"+typeKey(et)+c.suffix)
			}
			return
		}
		x.fatal("store of unsupported type %s", t)
	}
}

// zeroGhost initialises the ghost fields of a freshly allocated struct (and of the structs embedded
// in it by value) to their zero values.
func (x *Exec) zeroGhost(st *State, addr string, t types.Type) {
	s, ok := t.Underlying().(*types.Struct)
	if !ok {
		return
	}
	prefix := typeKey(t) + "."
	for k, g := range x.eng.ghostFlds {
		if !strings.HasPrefix(k, prefix) || strings.Contains(k[len(prefix):], ".") {
			continue
		}
		gt, err := x.eng.resolveSpecType(g.Pkg, g.Type)
		if err != nil {
			continue
		}
		sort := specSort(gt)
		z := "0"
		switch sort {
		case "Bool":
			z = "false"
		case "Int":
			z = "0"
		default:
			continue
		}
		name := "H$" + typeKey(t) + "$" + g.Name
		h := x.heap(st, name, arrSort(sort))
		x.setHeap(st, name, arrSort(sort), sx("store", h, addr, z))
	}
	for i := 0; i < s.NumFields(); i++ {
		f := s.Field(i)
		if kindOf(f.Type()) == KStruct {
			x.zeroGhost(st, x.structAddr(&Loc{Kind: LField, Base: fieldHeap(t, f), Ref: addr}), f.Type())
		}
	}
}

func (x *Exec) storeStruct(st *State, addr string, t types.Type, v Val) {
	s := t.Underlying().(*types.Struct)
	sv, ok := v.(StructV)
	if !ok || len(sv.F) != s.NumFields() {
		x.fatal("storeStruct: bad value for %s", t)
		return
	}
	for i := 0; i < s.NumFields(); i++ {
		f := s.Field(i)
		x.store(st, &Loc{Kind: LField, Base: fieldHeap(t, f), Ref: addr}, f.Type(), sv.F[i])
	}
}

func (x *Exec) zeroVal(t types.Type) Val {
	switch kindOf(t) {
	case KInt, KPtr:
		return I("0")
	case KBool:
		return B("false")
	case KStr:
		return Sc{T: x.strLit(""), S: "Str"}
	case KReal:
		return Sc{T: "0.0", S: "Real"}
	case KSlice:
		return SliceV{"0", "0", "0", "0"}
	case KIface:
		return IfaceV{"0", "0"}
	case KStruct:
		s := t.Underlying().(*types.Struct)
		out := StructV{}
		for i := 0; i < s.NumFields(); i++ {
			out.F = append(out.F, x.zeroVal(s.Field(i).Type()))
		}
		return out
	}
	return x.havocVal(t, "zero")
}

func (x *Exec) strLit(s string) string {
	x.declSort("Str")
	x.declareFun("strlen", "(Str) Int")
	name := "strlit$" + sanitize(fmt.Sprintf("%x", s))
	if len(name) > 60 {
		name = name[:60] + fmt.Sprintf("$%d", len(s))
	}
	if !x.declared[name] {
		x.declare(name, "Str")
		x.emitGlobal(fmt.Sprintf("(assert (= (strlen %s) %d))", name, len(s)))
	}
	return name
}

func (x *Exec) declSort(s string) {
	if x.declared["sort:"+s] {
		return
	}
	x.declared["sort:"+s] = true
	x.emitGlobal(fmt.Sprintf("(declare-sort %s 0)", s))
	if s == "Str" {
		x.declareFun("strlen", "(Str) Int")
		x.emitGlobal("(assert (forall ((s Str)) (! (>= (strlen s) 0) :pattern ((strlen s)))))")
	}
}

// havocVal returns an unconstrained value of type t (with type-range assumptions).
func (x *Exec) havocVal(t types.Type, prefix string) Val {
	switch kindOf(t) {
	case KInt:
		n := x.fresh(prefix, "Int")
		x.assume("true", rangeFormula(t, n))
		return I(n)
	case KPtr:
		n := x.fresh(prefix, "Int")
		return I(n)
	case KBool:
		return B(x.fresh(prefix, "Bool"))
	case KStr:
		x.declSort("Str")
		return Sc{T: x.fresh(prefix, "Str"), S: "Str"}
	case KReal:
		return Sc{T: x.fresh(prefix, "Real"), S: "Real"}
	case KSlice:
		a, o, l, c := x.fresh(prefix+".arr", "Int"), x.fresh(prefix+".off", "Int"), x.fresh(prefix+".len", "Int"), x.fresh(prefix+".cap", "Int")
		x.assume("true", sx("and", sx("<=", "0", o), sx("<=", "0", l), sx("<=", l, c), sx("<=", sx("+", o, c), "9223372036854775807"), sx("=>", sx("=", a, "0"), sx("=", c, "0"))))
		return SliceV{a, o, l, c}
	case KIface:
		return IfaceV{x.fresh(prefix+".tag", "Int"), x.fresh(prefix+".ref", "Int")}
	case KStruct:
		s := t.Underlying().(*types.Struct)
		out := StructV{}
		for i := 0; i < s.NumFields(); i++ {
			out.F = append(out.F, x.havocVal(s.Field(i).Type(), prefix+"."+s.Field(i).Name()))
		}
		return out
	case KTuple:
		tu := t.(*types.Tuple)
		out := TupleV{}
		for i := 0; i < tu.Len(); i++ {
			out.E = append(out.E, x.havocVal(tu.At(i).Type(), fmt.Sprintf("%s.%d", prefix, i)))
		}
		return out
	}
	return I(x.fresh(prefix, "Int"))
}

// assumptions that hold for every well-typed value of type t read from memory / received from a call
func (x *Exec) assumeTyped(guard string, t types.Type, v Val) {
	switch vv := v.(type) {
	case Sc:
		if kindOf(t) == KInt {
			x.assume(guard, rangeFormula(t, vv.T))
		}
	case SliceV:
		x.assume(guard, sx("and", sx("<=", "0", vv.Off), sx("<=", "0", vv.Len), sx("<=", vv.Len, vv.Cap), sx("<=", sx("+", vv.Off, vv.Cap), "9223372036854775807")))
	case StructV:
		if s, ok := t.Underlying().(*types.Struct); ok {
			for i := 0; i < s.NumFields() && i < len(vv.F); i++ {
				x.assumeTyped(guard, s.Field(i).Type(), vv.F[i])
			}
		}
	case TupleV:
		if tu, ok := t.(*types.Tuple); ok {
			for i := 0; i < tu.Len() && i < len(vv.E); i++ {
				x.assumeTyped(guard, tu.At(i).Type(), vv.E[i])
			}
		}
	}
}

// merge values under condition c (c ? a : b)
func (x *Exec) mergeVal(c string, a, b Val) Val {
	switch av := a.(type) {
	case Sc:
		bv, ok := b.(Sc)
		if !ok {
			x.fatal("merge: kind mismatch %T %T", a, b)
			return a
		}
		r := Sc{T: ite(c, av.T, bv.T), S: av.S}
		if av.Loc != nil && bv.Loc != nil && av.Loc.Kind == bv.Loc.Kind && av.Loc.Base == bv.Loc.Base {
			r.Loc = &Loc{Kind: av.Loc.Kind, Base: av.Loc.Base, Ref: ite(c, av.Loc.Ref, bv.Loc.Ref), Arr: ite(c, av.Loc.Arr, bv.Loc.Arr), Idx: ite(c, av.Loc.Idx, bv.Loc.Idx)}
			if av.Loc.Off != "" && bv.Loc.Off != "" {
				r.Loc.Off = ite(c, av.Loc.Off, bv.Loc.Off)
				r.Loc.Rel = ite(c, av.Loc.Rel, bv.Loc.Rel)
			}
		} else if av.Loc != nil || bv.Loc != nil {
			if av.T != "0" && bv.T != "0" {
				x.warn("merge of pointers with different locations: location dropped")
			} else if av.Loc != nil {
				r.Loc = av.Loc
			} else {
				r.Loc = bv.Loc
			}
		}
		if av.Fn == bv.Fn {
			r.Fn, r.Clo = av.Fn, av.Clo
		}
		if av.Origin == bv.Origin {
			r.Origin = av.Origin
		}
		return r
	case SliceV:
		bv, ok := b.(SliceV)
		if !ok {
			x.fatal("merge: kind mismatch %T %T", a, b)
			return a
		}
		return SliceV{ite(c, av.Arr, bv.Arr), ite(c, av.Off, bv.Off), ite(c, av.Len, bv.Len), ite(c, av.Cap, bv.Cap)}
	case IfaceV:
		bv, ok := b.(IfaceV)
		if !ok {
			x.fatal("merge: kind mismatch %T %T", a, b)
			return a
		}
		return IfaceV{ite(c, av.Tag, bv.Tag), ite(c, av.Ref, bv.Ref)}
	case StructV:
		bv, ok := b.(StructV)
		if !ok || len(bv.F) != len(av.F) {
			x.fatal("merge: kind mismatch %T %T", a, b)
			return a
		}
		out := StructV{}
		for i := range av.F {
			out.F = append(out.F, x.mergeVal(c, av.F[i], bv.F[i]))
		}
		return out
	case TupleV:
		bv, ok := b.(TupleV)
		if !ok || len(bv.E) != len(av.E) {
			x.fatal("merge: kind mismatch %T %T", a, b)
			return a
		}
		out := TupleV{}
		for i := range av.E {
			out.E = append(out.E, x.mergeVal(c, av.E[i], bv.E[i]))
		}
		return out
	case IterV:
		return a
	case nil:
		return b
	}
	x.fatal("merge: unsupported value %T", a)
	return a
}

// name the components of a value with fresh constants (keeps terms small)
func (x *Exec) nameVal(prefix string, v Val) Val {
	switch vv := v.(type) {
	case Sc:
		vv.T = x.define(prefix, vv.S, vv.T)
		if vv.Loc != nil {
			l := *vv.Loc
			if l.Ref != "" {
				l.Ref = x.define(prefix+".r", "Int", l.Ref)
			}
			if l.Arr != "" {
				l.Arr = x.define(prefix+".a", "Int", l.Arr)
			}
			if l.Idx != "" {
				l.Idx = x.define(prefix+".i", "Int", l.Idx)
			}
			vv.Loc = &l
		}
		return vv
	case SliceV:
		return SliceV{x.define(prefix+".arr", "Int", vv.Arr), x.define(prefix+".off", "Int", vv.Off), x.define(prefix+".len", "Int", vv.Len), x.define(prefix+".cap", "Int", vv.Cap)}
	case IfaceV:
		return IfaceV{x.define(prefix+".tag", "Int", vv.Tag), x.define(prefix+".ref", "Int", vv.Ref)}
	case StructV:
		out := StructV{}
		for i, f := range vv.F {
			out.F = append(out.F, x.nameVal(fmt.Sprintf("%s.%d", prefix, i), f))
		}
		return out
	case TupleV:
		out := TupleV{}
		for i, f := range vv.E {
			out.E = append(out.E, x.nameVal(fmt.Sprintf("%s.%d", prefix, i), f))
		}
		return out
	}
	return v
}

func (x *Exec) mergeStates(conds []string, sts []*State) *State {
	if len(sts) == 1 {
		return sts[0].clone()
	}
	out := &State{heap: map[string]string{}}
	names := map[string]bool{}
	for _, s := range sts {
		for k := range s.heap {
			names[k] = true
		}
	}
	var keys []string
	for k := range names {
		keys = append(keys, k)
	}
	sort.Strings(keys)
	for _, k := range keys {
		sortk, known := x.eng.heapSorts[k]
		if !known {
			// placeholder-only heap (havoced before its sort was known) or the "*" marker
			same := true
			for _, s := range sts {
				if s.heap[k] != sts[0].heap[k] {
					same = false
				}
			}
			if same {
				out.heap[k] = sts[0].heap[k]
			} else {
				x.n++
				pfx := "?"
				if k == "*" {
					pfx = "?all"
					for _, s := range sts {
						if strings.HasPrefix(s.heap[k], "?allng") || s.heap[k] == "" {
							pfx = "?allng"
						}
					}
				}
				out.heap[k] = fmt.Sprintf("%sm%d", pfx, x.n)
			}
			continue
		}
		vers := make([]string, len(sts))
		same := true
		for i, s := range sts {
			vers[i] = x.heap(s, k, sortk)
			if vers[i] != vers[0] {
				same = false
			}
		}
		if same {
			out.heap[k] = vers[0]
			continue
		}
		term := vers[len(vers)-1]
		for i := len(vers) - 2; i >= 0; i-- {
			term = ite(conds[i], vers[i], term)
		}
		x.setHeap(out, k, sortk, term)
	}
	// alloc counter
	alc := sts[len(sts)-1].alc
	for i := len(sts) - 2; i >= 0; i-- {
		alc = ite(conds[i], sts[i].alc, alc)
	}
	out.alc = x.define("alc", "Int", alc)
	// defers: union keyed by instruction
	seen := map[*ssa.Defer]int{}
	for i, s := range sts {
		for _, d := range s.defers {
			g := and(conds[i], d.guard)
			if j, ok := seen[d.instr]; ok {
				out.defers[j].guard = or(out.defers[j].guard, g)
				continue
			}
			seen[d.instr] = len(out.defers)
			nd := d
			nd.guard = g
			out.defers = append(out.defers, nd)
		}
	}
	return out
}

// ---------------------------------------------------------------- running a function body

func (x *Exec) newRef(st *State, prefix string) string {
	r := x.fresh(prefix, "Int")
	x.emit(fmt.Sprintf("(assert (= %s (+ %s 1)))", r, st.alc))
	st.alc = r
	return r
}

func backEdge(from, to *ssa.BasicBlock) bool { return to.Dominates(from) }

func findLoops(fn *ssa.Function) map[*ssa.BasicBlock]*loopInfo {
	loops := map[*ssa.BasicBlock]*loopInfo{}
	for _, b := range fn.Blocks {
		for _, s := range b.Succs {
			if backEdge(b, s) {
				li := loops[s]
				if li == nil {
					li = &loopInfo{header: s, body: map[*ssa.BasicBlock]bool{s: true}}
					loops[s] = li
				}
				// natural loop: nodes reaching b without passing s
				var stack []*ssa.BasicBlock
				if !li.body[b] {
					li.body[b] = true
					stack = append(stack, b)
				}
				for len(stack) > 0 {
					n := stack[len(stack)-1]
					stack = stack[:len(stack)-1]
					for _, p := range n.Preds {
						if !li.body[p] {
							li.body[p] = true
							stack = append(stack, p)
						}
					}
				}
			}
		}
	}
	var hs []*ssa.BasicBlock
	for h := range loops {
		hs = append(hs, h)
	}
	sort.Slice(hs, func(i, j int) bool { return hs[i].Index < hs[j].Index })
	for i, h := range hs {
		loops[h].ordinal = i
	}
	return loops
}

func topoOrder(fn *ssa.Function) []*ssa.BasicBlock {
	var order []*ssa.BasicBlock
	seen := map[*ssa.BasicBlock]bool{}
	var dfs func(b *ssa.BasicBlock)
	dfs = func(b *ssa.BasicBlock) {
		seen[b] = true
		for i := len(b.Succs) - 1; i >= 0; i-- {
			s := b.Succs[i]
			if backEdge(b, s) || seen[s] {
				continue
			}
			dfs(s)
		}
		order = append(order, b)
	}
	if len(fn.Blocks) > 0 {
		dfs(fn.Blocks[0])
	}
	for i, j := 0, len(order)-1; i < j; i, j = i+1, j-1 {
		order[i], order[j] = order[j], order[i]
	}
	return order
}

// runBody symbolically executes fn. Returns the frame (with rets).
func (x *Exec) runBody(fn *ssa.Function, params []Val, free []Val, st0 *State, guard0 string, top bool, con *Contract, depth int, tag string) *Frame {
	fr := &Frame{fn: fn, vals: map[ssa.Value]Val{}, reach: map[*ssa.BasicBlock]string{}, outs: map[*ssa.BasicBlock]*State{},
		edges: map[[2]int]string{}, top: top, loops: findLoops(fn), entry: st0.clone(), guard0: guard0, con: con, depth: depth, tag: tag}
	for i, p := range fn.Params {
		if i < len(params) {
			fr.vals[p] = params[i]
		}
	}
	for i, fv := range fn.FreeVars {
		if i < len(free) {
			fr.vals[fv] = free[i]
		} else {
			v := x.havocVal(fv.Type(), "fv."+fv.Name())
			fr.vals[fv] = v
		}
	}
	if fn.Recover != nil {
		// recover block is only reachable via panics, which we do not follow
	}
	order := topoOrder(fn)
	for _, b := range order {
		x.runBlock(fr, b, st0)
	}
	return fr
}

func (x *Exec) runBlock(fr *Frame, b *ssa.BasicBlock, st0 *State) {
	if fr.top {
		x.curBlk = b.Index
	}
	var st *State
	var reach string
	li := fr.loops[b]
	if b.Index == 0 {
		st = st0.clone()
		reach = fr.guard0
	} else {
		var conds []string
		var sts []*State
		var preds []*ssa.BasicBlock
		for _, p := range b.Preds {
			if backEdge(p, b) {
				continue
			}
			ec, ok := fr.edges[[2]int{p.Index, b.Index}]
			if !ok {
				continue // predecessor unreachable / not processed (e.g. recover block)
			}
			conds = append(conds, ec)
			sts = append(sts, fr.outs[p])
			preds = append(preds, p)
		}
		if len(preds) == 0 {
			fr.reach[b] = "false"
			return
		}
		reach = x.define(fmt.Sprintf("R%s.%d", fr.tag, b.Index), "Bool", or(conds...))
		st = x.mergeStates(conds, sts)
		// phis
		for _, ins := range b.Instrs {
			phi, ok := ins.(*ssa.Phi)
			if !ok {
				break
			}
			var v Val
			first := true
			for k := len(preds) - 1; k >= 0; k-- {
				idx := predIndex(b, preds[k])
				ev := x.value(fr, phi.Edges[idx])
				if first {
					v = ev
					first = false
				} else {
					v = x.mergeVal(conds[k], ev, v)
				}
			}
			fr.vals[phi] = x.nameVal(fr.tag+phi.Name(), v)
		}
	}
	fr.reach[b] = reach
	if li != nil {
		x.loopHeader(fr, li, st, reach)
	}
	for _, ins := range b.Instrs {
		if _, ok := ins.(*ssa.Phi); ok {
			continue
		}
		x.instr(fr, b, st, reach, ins)
	}
	fr.outs[b] = st
	// successors
	last := b.Instrs[len(b.Instrs)-1]
	switch t := last.(type) {
	case *ssa.If:
		c := x.value(fr, t.Cond).(Sc).T
		x.edge(fr, b, b.Succs[0], and(reach, c), st)
		x.edge(fr, b, b.Succs[1], and(reach, not(c)), st)
	case *ssa.Jump:
		x.edge(fr, b, b.Succs[0], reach, st)
	}
}

func predIndex(b, p *ssa.BasicBlock) int {
	for i, q := range b.Preds {
		if q == p {
			return i
		}
	}
	return -1
}

func (x *Exec) edge(fr *Frame, from, to *ssa.BasicBlock, cond string, st *State) {
	if backEdge(from, to) {
		li := fr.loops[to]
		x.loopBackEdge(fr, li, from, cond, st)
		return
	}
	fr.edges[[2]int{from.Index, to.Index}] = x.define(fmt.Sprintf("E%s.%d.%d", fr.tag, from.Index, to.Index), "Bool", cond)
}

// ---------------------------------------------------------------- values

func (x *Exec) value(fr *Frame, v ssa.Value) Val {
	if r, ok := fr.vals[v]; ok {
		return r
	}
	switch c := v.(type) {
	case *ssa.Const:
		return x.constVal(c)
	case *ssa.Function:
		return Sc{T: x.fnConst(c), S: "Int", Fn: c}
	case *ssa.Global:
		name := "g$" + sanitize(c.Pkg.Pkg.Name()+"."+c.Name())
		x.declare(name, "Int")
		et := derefType(c.Type())
		sc := Sc{T: name, S: "Int"}
		if kindOf(et) != KStruct {
			sc.Loc = &Loc{Kind: LCell, Base: "GL$" + sanitize(c.Pkg.Pkg.Name()+"."+c.Name()), Ref: name}
		}
		return sc
	case *ssa.Builtin:
		return Sc{T: "0", S: "Int"}
	}
	x.warn("value %s (%T) used before definition: havoc", v.Name(), v)
	r := x.havocVal(v.Type(), "undef."+v.Name())
	fr.vals[v] = r
	return r
}

func (x *Exec) fnConst(f *ssa.Function) string {
	name := "fn$" + sanitize(funcKey(f))
	if !x.declared[name] {
		x.declare(name, "Int")
		x.emitGlobal(fmt.Sprintf("(assert (> %s 0))", name))
	}
	return name
}

func (x *Exec) constVal(c *ssa.Const) Val {
	t := c.Type()
	if c.Value == nil {
		return x.zeroVal(t)
	}
	switch kindOf(t) {
	case KInt:
		if c.Value.Kind() == constant.Int {
			s := c.Value.ExactString()
			if strings.HasPrefix(s, "-") {
				return I("(- " + s[1:] + ")")
			}
			return I(s)
		}
	case KBool:
		if constant.BoolVal(c.Value) {
			return B("true")
		}
		return B("false")
	case KStr:
		x.declSort("Str")
		return Sc{T: x.strLit(constant.StringVal(c.Value)), S: "Str"}
	case KReal:
		f, _ := constant.Float64Val(c.Value)
		s := fmt.Sprintf("%f", f)
		if f < 0 {
			s = fmt.Sprintf("(- %f)", -f)
		}
		return Sc{T: s, S: "Real"}
	}
	return x.havocVal(t, "const")
}

// ---------------------------------------------------------------- instructions

func (x *Exec) set(fr *Frame, v ssa.Value, val Val) {
	switch val.(type) {
	case Sc, SliceV, IfaceV:
		val = x.nameVal(fr.tag+v.Name(), val)
	}
	fr.vals[v] = val
}

func (x *Exec) oblName(fr *Frame, kind string, pos token.Pos, extra string) string {
	p := x.eng.prog.Fset.Position(pos)
	_ = p
	n := funcKey(x.fn) + "/" + kind
	if fr.tag != "" {
		n += "@" + strings.TrimPrefix(fr.tag, ".")
	}
	if extra != "" {
		n += "/" + extra
	}
	return n
}

func (x *Exec) instr(fr *Frame, b *ssa.BasicBlock, st *State, reach string, ins ssa.Instruction) {
	switch i := ins.(type) {
	case *ssa.DebugRef:
		return
	case *ssa.Alloc:
		et := derefType(i.Type())
		r := x.newRef(st, fr.tag+i.Name())
		sc := Sc{T: r, S: "Int"}
		if kindOf(et) == KStruct {
			x.storeStruct(st, r, et, x.zeroVal(et))
			x.zeroGhost(st, r, et)
		} else if kindOf(et) == KArray {
			// backing array object: elements addressed through E$ heaps; contents unconstrained
		} else {
			sc.Loc = &Loc{Kind: LCell, Base: "A$" + sanitize(funcKey(fr.fn)) + "$" + i.Name(), Ref: r}
			if cs := x.comps(et); cs != nil {
				x.store(st, sc.Loc, et, x.zeroVal(et))
			}
		}
		x.set(fr, i, sc)
	case *ssa.FieldAddr:
		base := x.value(fr, i.X).(Sc)
		stt := derefType(i.X.Type())
		s := stt.Underlying().(*types.Struct)
		f := s.Field(i.Field)
		x.assume(reach, sx("not", sx("=", base.T, "0"))) // A-nil
		loc := &Loc{Kind: LField, Base: fieldHeap(stt, f), Ref: base.T}
		if kindOf(f.Type()) == KStruct {
			x.set(fr, i, Sc{T: x.structAddr(loc), S: "Int"})
		} else {
			x.declareFun("fptr", "(Int Int) Int")
			x.set(fr, i, Sc{T: sx("fptr", base.T, num(int64(i.Field))), S: "Int", Loc: loc})
		}
	case *ssa.Field:
		sv, ok := x.value(fr, i.X).(StructV)
		if !ok {
			x.warn("Field on non-struct value")
			x.set(fr, i, x.havocVal(i.Type(), i.Name()))
			return
		}
		x.set(fr, i, sv.F[i.Field])
	case *ssa.IndexAddr:
		idx := x.value(fr, i.Index).(Sc).T
		switch xv := x.value(fr, i.X).(type) {
		case SliceV:
			et := i.X.Type().Underlying().(*types.Slice).Elem()
			x.oblige(x.oblName(fr, "nopanic", i.Pos(), "index"), "nopanic", reach, sx("and", sx("<=", "0", idx), sx("<", idx, xv.Len)), nil, x.posText(i.Pos())+": index in range")
			loc := &Loc{Kind: LElem, Base: "E$" + typeKey(et), Arr: xv.Arr, Idx: x.define("ix", "Int", sx("+", xv.Off, idx)), Off: xv.Off, Rel: idx}
			if kindOf(et) == KStruct {
				if pb, pr := x.offBaseOf(xv.Off); pr != "0" {
					// address relative to the slice this one was cut from (keeps one syntactic base per array)
					loc = &Loc{Kind: LElem, Base: loc.Base, Arr: xv.Arr, Idx: loc.Idx, Off: pb, Rel: x.define("rix", "Int", sx("+", pr, idx))}
				}
				x.set(fr, i, Sc{T: x.structAddr(loc), S: "Int"})
			} else {
				x.declEptr()
				x.set(fr, i, Sc{T: sx("eptr", loc.Arr, loc.Idx), S: "Int", Loc: loc})
			}
		case Sc: // pointer to array
			at, ok := derefType(i.X.Type()).Underlying().(*types.Array)
			if !ok {
				x.warn("IndexAddr on unsupported operand")
				x.set(fr, i, x.havocVal(i.Type(), i.Name()))
				return
			}
			et := at.Elem()
			x.oblige(x.oblName(fr, "nopanic", i.Pos(), "index"), "nopanic", reach, sx("and", sx("<=", "0", idx), sx("<", idx, num(at.Len()))), nil, x.posText(i.Pos())+": array index in range")
			loc := &Loc{Kind: LElem, Base: "E$" + typeKey(et), Arr: xv.T, Idx: idx}
			if kindOf(et) == KStruct {
				x.set(fr, i, Sc{T: x.structAddr(loc), S: "Int"})
			} else {
				x.declEptr()
				x.set(fr, i, Sc{T: sx("eptr", loc.Arr, loc.Idx), S: "Int", Loc: loc})
			}
		default:
			x.warn("IndexAddr on %T", xv)
			x.set(fr, i, x.havocVal(i.Type(), i.Name()))
		}
	case *ssa.Index:
		x.warn("Index on value (array/string): havoc")
		v := x.havocVal(i.Type(), i.Name())
		x.set(fr, i, v)
	case *ssa.UnOp:
		x.unop(fr, st, reach, i)
	case *ssa.BinOp:
		x.set(fr, i, x.binop(fr, reach, i))
	case *ssa.Store:
		x.storeInstr(fr, st, reach, i)
	case *ssa.Convert:
		x.set(fr, i, x.convert(fr, st, reach, i))
	case *ssa.ChangeType:
		x.set(fr, i, x.value(fr, i.X))
	case *ssa.ChangeInterface:
		x.set(fr, i, x.value(fr, i.X))
	case *ssa.MakeInterface:
		v := x.value(fr, i.X)
		tag := x.typeTag(i.X.Type())
		ref := ""
		if sc, ok := v.(Sc); ok && sc.S == "Int" {
			ref = sc.T
		} else {
			ref = x.fresh("ifref", "Int")
		}
		x.set(fr, i, IfaceV{tag, ref})
	case *ssa.TypeAssert:
		x.typeAssert(fr, reach, i)
	case *ssa.Extract:
		tv, ok := x.value(fr, i.Tuple).(TupleV)
		if !ok || i.Index >= len(tv.E) {
			x.warn("Extract from non-tuple")
			x.set(fr, i, x.havocVal(i.Type(), i.Name()))
			return
		}
		x.set(fr, i, tv.E[i.Index])
	case *ssa.Slice:
		x.sliceInstr(fr, st, reach, i)
	case *ssa.MakeSlice:
		ln := x.value(fr, i.Len).(Sc).T
		cp := x.value(fr, i.Cap).(Sc).T
		x.oblige(x.oblName(fr, "nopanic", i.Pos(), "makeslice"), "nopanic", reach, sx("and", sx("<=", "0", ln), sx("<=", ln, cp)), nil, x.posText(i.Pos())+": make: len in range")
		arr := x.newRef(st, "mk")
		et := i.Type().Underlying().(*types.Slice).Elem()
		x.zeroRow(st, et, arr)
		x.set(fr, i, SliceV{arr, "0", ln, cp})
	case *ssa.MakeMap:
		r := x.newRef(st, "map")
		mt := i.Type().Underlying().(*types.Map)
		x.mapInit(st, mt, r)
		x.set(fr, i, I(r))
	case *ssa.MakeChan:
		x.set(fr, i, I(x.newRef(st, "chan")))
	case *ssa.MakeClosure:
		var bs []Val
		for _, bv := range i.Bindings {
			bs = append(bs, x.value(fr, bv))
		}
		f := i.Fn.(*ssa.Function)
		r := x.newRef(st, "clo")
		x.set(fr, i, Sc{T: r, S: "Int", Fn: f, Clo: bs})
	case *ssa.Lookup:
		x.lookup(fr, st, reach, i)
	case *ssa.MapUpdate:
		m := x.value(fr, i.Map).(Sc).T
		mt := i.Map.Type().Underlying().(*types.Map)
		x.assume(reach, sx("not", sx("=", m, "0")))
		x.mapStore(st, mt, m, x.value(fr, i.Key), x.value(fr, i.Value))
	case *ssa.Range:
		x.rangeInstr(fr, st, i)
	case *ssa.Next:
		x.nextInstr(fr, st, reach, i)
	case *ssa.Call:
		v := x.call(fr, st, reach, i.Common(), i, i.Type())
		x.set(fr, i, v)
	case *ssa.Defer:
		var args []Val
		for _, a := range i.Call.Args {
			args = append(args, x.value(fr, a))
		}
		var fnv Val
		if !i.Call.IsInvoke() {
			fnv = x.value(fr, i.Call.Value)
		} else {
			fnv = x.value(fr, i.Call.Value)
		}
		st.defers = append(st.defers, deferRec{instr: i, guard: reach, args: args, fnv: fnv})
	case *ssa.RunDefers:
		x.runDefers(fr, st, reach)
	case *ssa.Go:
		if fr.top && x.con != nil && x.con.GoJoin != "" {
			// joined goroutine: executed as a call at the spawn point (its effects are complete before the function
			// goes on past the join, which is where they are first used)
			x.assumed["go statement in "+funcKey(fr.fn)+" executed as a call at the spawn point (gojoin: "+x.con.GoJoin+")"] = true
			x.call(fr, st, reach, i.Common(), i, types.NewTuple())
			break
		}
		x.warn("go statement: spawned call abstracted by its inferred effects")
		x.havocEffects(st, x.eng.eff.callEffects(i.Common()))
	case *ssa.Send:
		x.sendInstr(fr, st, reach, i)
	case *ssa.Select:
		x.warn("select: havoc")
		x.set(fr, i, x.havocVal(i.Type(), i.Name()))
	case *ssa.Return:
		var vals []Val
		for _, r := range i.Results {
			vals = append(vals, x.value(fr, r))
		}
		fr.rets = append(fr.rets, retRec{guard: reach, vals: vals, st: st.clone(), instr: i})
	case *ssa.Panic:
		x.panicInstr(fr, st, reach, i)
	case *ssa.If, *ssa.Jump:
		// handled by runBlock
	case *ssa.SliceToArrayPointer, *ssa.MultiConvert:
		x.warn("%T: havoc", i)
		x.set(fr, i.(ssa.Value), x.havocVal(i.(ssa.Value).Type(), "conv"))
	default:
		x.warn("unsupported instruction %T: havoc", ins)
		if v, ok := ins.(ssa.Value); ok {
			x.set(fr, v, x.havocVal(v.Type(), v.Name()))
		}
	}
}

func (x *Exec) posText(p token.Pos) string {
	pos := x.eng.prog.Fset.Position(p)
	f := pos.Filename
	if k := strings.LastIndex(f, "/"); k >= 0 {
		f = f[k+1:]
	}
	return fmt.Sprintf("%s:%d", f, pos.Line)
}

func (x *Exec) typeTag(t types.Type) string {
	name := "tag$" + sanitize(typeKey(t))
	if !x.declared[name] {
		x.declare(name, "Int")
		id := len(x.tagIDs) + 1
		x.tagIDs[name] = id
		x.emitGlobal(fmt.Sprintf("(assert (= %s %d))", name, id))
	}
	return name
}

// havocRow makes the elements of backing array arr unknown
func (x *Exec) havocRow(st *State, et types.Type, arr string) {
	if kindOf(et) == KStruct || kindOf(et) == KArray {
		x.applyMods(st, []modLoc{{heap: "*nonghost", whole: true}})
		return
	}
	for _, c := range x.comps(et) {
		name := "E$" + typeKey(et) + c.suffix
		h := x.heap(st, name, arr2Sort(c.sort))
		x.setHeap(st, name, arr2Sort(c.sort), sx("store", h, arr, x.fresh("hrow", fmt.Sprintf("(Array Int %s)", c.sort))))
	}
}

func (x *Exec) zeroRow(st *State, et types.Type, arr string) {
	if kindOf(et) == KStruct || kindOf(et) == KArray {
		return // contents unconstrained (sound, imprecise)
	}
	for _, c := range x.comps(et) {
		name := "E$" + typeKey(et) + c.suffix
		h := x.heap(st, name, arr2Sort(c.sort))
		z := "0"
		switch c.sort {
		case "Bool":
			z = "false"
		case "Str":
			z = x.strLit("")
		case "Real":
			z = "0.0"
		}
		x.setHeap(st, name, arr2Sort(c.sort), sx("store", h, arr, fmt.Sprintf("((as const (Array Int %s)) %s)", c.sort, z)))
	}
}

func (x *Exec) unop(fr *Frame, st *State, reach string, i *ssa.UnOp) {
	switch i.Op {
	case token.MUL: // load
		p := x.value(fr, i.X)
		sc, ok := p.(Sc)
		if !ok {
			x.warn("load through non-scalar pointer")
			x.set(fr, i, x.havocVal(i.Type(), i.Name()))
			return
		}
		et := i.Type()
		var v Val
		if kindOf(et) == KStruct {
			x.assume(reach, sx("not", sx("=", sc.T, "0")))
			v = x.loadStruct(st, sc.T, et)
		} else if kindOf(et) == KArray {
			x.warn("load of array value: havoc")
			v = x.havocVal(et, i.Name())
		} else {
			loc := sc.Loc
			if loc == nil {
				loc = &Loc{Kind: LCell, Base: "C$" + typeKey(et), Ref: sc.T}
				if _, isParam := i.X.(*ssa.Parameter); !isParam {
					if _, isFV := i.X.(*ssa.FreeVar); !isFV {
						x.warn("load through pointer without known location (%s): generic cell heap", i.X.Name())
					}
				}
			}
			v = x.load(st, loc, et)
		}
		v = x.nameVal(fr.tag+i.Name(), v)
		x.assumeTyped(reach, et, v)
		if kindOf(et) == KPtr {
			if s, ok := v.(Sc); ok {
				x.assume(reach, sx("<=", s.T, st.alc))
			}
		}
		x.assumeAllocated(reach, st, v)
		if g, ok := i.X.(*ssa.Global); ok {
			if ob, ok := g.Object().(*types.Var); ok && isSentinel(ob) {
				v = x.sentinel(ob)
			}
		}
		x.set(fr, i, v)
	case token.NOT:
		x.set(fr, i, B(not(x.value(fr, i.X).(Sc).T)))
	case token.SUB:
		v := x.value(fr, i.X).(Sc)
		if v.S == "Real" {
			x.set(fr, i, Sc{T: sx("-", v.T), S: "Real"})
			return
		}
		x.set(fr, i, I(wrapTerm(i.Type(), sx("-", v.T), true)))
	case token.XOR:
		v := x.value(fr, i.X).(Sc)
		lo, hi, ok := intRange(i.Type())
		if ok && lo.Sign() == 0 {
			x.set(fr, i, I(sx("-", bigNum(hi), v.T)))
		} else {
			x.set(fr, i, I(sx("-", sx("-", v.T), "1")))
		}
	case token.ARROW:
		// channel receive: havoc (sound for a channel nothing is known about); successful receives are
		// counted in the ghost G$recvtotal
		v := x.havocVal(i.Type(), i.Name())
		cur := x.heap(st, "G$recvtotal", "Int")
		inc := "1"
		if i.CommaOk {
			if tv, ok := v.(TupleV); ok && len(tv.E) == 2 {
				if okv, ok := tv.E[1].(Sc); ok {
					inc = ite(okv.T, "1", "0")
				}
			}
		}
		x.setHeap(st, "G$recvtotal", "Int", sx("+", cur, inc))
		x.set(fr, i, v)
	default:
		x.warn("unop %s: havoc", i.Op)
		x.set(fr, i, x.havocVal(i.Type(), i.Name()))
	}
}

func (x *Exec) storeInstr(fr *Frame, st *State, reach string, i *ssa.Store) {
	p, ok := x.value(fr, i.Addr).(Sc)
	if !ok {
		x.fatal("store through non-scalar pointer")
		return
	}
	et := derefType(i.Addr.Type())
	v := x.value(fr, i.Val)
	// a conditional store is not needed: the block's state is only used under its reach condition
	if kindOf(et) == KStruct {
		x.storeStruct(st, p.T, et, v)
		return
	}
	if at, ok := et.Underlying().(*types.Array); ok {
		// store of a whole array value: its elements (row p of the element heap) become unknown (sound, imprecise)
		x.havocRow(st, at.Elem(), p.T)
		x.warn("store of an array value (%s): elements havoc", et)
		return
	}
	loc := p.Loc
	if loc == nil {
		loc = &Loc{Kind: LCell, Base: "C$" + typeKey(et), Ref: p.T}
		if _, isParam := i.Addr.(*ssa.Parameter); !isParam {
			x.warn("store through pointer without known location (%s): generic cell heap", i.Addr.Name())
		}
	}
	x.store(st, loc, et, v)
}

func (x *Exec) binop(fr *Frame, reach string, i *ssa.BinOp) Val {
	a, b := x.value(fr, i.X), x.value(fr, i.Y)
	t := i.X.Type()
	switch i.Op {
	case token.EQL, token.NEQ:
		eq := x.equal(a, b, t)
		if i.Op == token.NEQ {
			return B(not(eq))
		}
		return B(eq)
	}
	as, ok1 := a.(Sc)
	bs, ok2 := b.(Sc)
	if !ok1 || !ok2 {
		x.warn("binop %s on non-scalars: havoc", i.Op)
		return x.havocVal(i.Type(), i.Name())
	}
	if as.S == "Real" || as.S == "Str" {
		if as.S == "Str" && i.Op == token.ADD {
			x.declareFun("strcat", "(Str Str) Str")
			x.emitOnce("strcat-len", "(assert (forall ((a Str) (b Str)) (! (= (strlen (strcat a b)) (+ (strlen a) (strlen b))) :pattern ((strcat a b)))))")
			return Sc{T: sx("strcat", as.T, bs.T), S: "Str"}
		}
		if as.S == "Real" {
			switch i.Op {
			case token.ADD:
				return Sc{T: sx("+", as.T, bs.T), S: "Real"}
			case token.SUB:
				return Sc{T: sx("-", as.T, bs.T), S: "Real"}
			case token.MUL:
				return Sc{T: sx("*", as.T, bs.T), S: "Real"}
			case token.LSS:
				return B(sx("<", as.T, bs.T))
			case token.LEQ:
				return B(sx("<=", as.T, bs.T))
			case token.GTR:
				return B(sx(">", as.T, bs.T))
			case token.GEQ:
				return B(sx(">=", as.T, bs.T))
			}
		}
		x.warn("binop %s on %s: havoc", i.Op, as.S)
		return x.havocVal(i.Type(), i.Name())
	}
	rt := i.Type()
	switch i.Op {
	case token.ADD:
		return I(wrapTerm(rt, sx("+", as.T, bs.T), true))
	case token.SUB:
		return I(wrapTerm(rt, sx("-", as.T, bs.T), true))
	case token.MUL:
		prod := x.define("prod", "Int", sx("*", as.T, bs.T))
		if lo, hi, ok := intRange(rt); ok {
			return I(sx("ite", sx("and", sx("<=", bigNum(lo), prod), sx("<=", prod, bigNum(hi))), prod, wrapTerm(rt, prod, false)))
		}
		return I(prod)
	case token.QUO:
		x.oblige(x.oblName(fr, "nopanic", i.Pos(), "div"), "nopanic", reach, sx("not", sx("=", bs.T, "0")), nil, x.posText(i.Pos())+": division by zero")
		return I(wrapTerm(rt, goDiv(as.T, bs.T, isUnsigned(rt)), true))
	case token.REM:
		x.oblige(x.oblName(fr, "nopanic", i.Pos(), "rem"), "nopanic", reach, sx("not", sx("=", bs.T, "0")), nil, x.posText(i.Pos())+": division by zero")
		return I(goRem(as.T, bs.T, isUnsigned(rt)))
	case token.LSS:
		return B(sx("<", as.T, bs.T))
	case token.LEQ:
		return B(sx("<=", as.T, bs.T))
	case token.GTR:
		return B(sx(">", as.T, bs.T))
	case token.GEQ:
		return B(sx(">=", as.T, bs.T))
	case token.SHL:
		// x << y : x * 2^y mod 2^N ; y constant or bounded
		p := x.pow2(bs.T)
		return I(wrapTerm(rt, sx("*", as.T, p), false))
	case token.SHR:
		p := x.pow2(bs.T)
		if isUnsigned(rt) {
			return I(sx("div", as.T, p))
		}
		return I(sx("div", as.T, p)) // floor division = arithmetic shift for signed
	case token.AND:
		if c, ok := constInt(i.Y); ok && isMask(c) {
			return I(sx("mod", as.T, num(c+1)))
		}
		if c, ok := constInt(i.X); ok && isMask(c) {
			return I(sx("mod", bs.T, num(c+1)))
		}
		if as.S == "Bool" {
			return B(and(as.T, bs.T))
		}
		if a, ok1 := litInt(as.T); ok1 {
			if b, ok2 := litInt(bs.T); ok2 {
				return I(num(a & b))
			}
		}
		return x.uninterpBit("bvand", rt, as.T, bs.T)
	case token.OR:
		if as.S == "Bool" {
			return B(or(as.T, bs.T))
		}
		if a, ok1 := litInt(as.T); ok1 {
			if b, ok2 := litInt(bs.T); ok2 {
				return I(num(a | b))
			}
		}
		return x.uninterpBit("bvor", rt, as.T, bs.T)
	case token.XOR:
		return x.uninterpBit("bvxor", rt, as.T, bs.T)
	case token.AND_NOT:
		return x.uninterpBit("bvandnot", rt, as.T, bs.T)
	}
	x.warn("binop %s: havoc", i.Op)
	return x.havocVal(i.Type(), i.Name())
}

func (x *Exec) emitOnce(key, text string) {
	if x.declared["once:"+key] {
		return
	}
	x.declared["once:"+key] = true
	x.emitGlobal(text)
}

func (x *Exec) uninterpBit(op string, t types.Type, a, b string) Val {
	x.declareFun(op, "(Int Int) Int")
	r := sx(op, a, b)
	n := x.define(op, "Int", r)
	x.assume("true", rangeFormula(t, n))
	if op == "bvor" {
		// flag tests: (a|b) with constants; keep a few useful facts
		x.emitOnce("bvor-ax", "(assert (forall ((a Int) (b Int)) (! (and (=> (and (>= a 0) (>= b 0)) (and (>= (bvor a b) a) (>= (bvor a b) b) (<= (bvor a b) (+ a b)))) (= (bvor a b) (bvor b a)) (= (bvor a 0) a)) :pattern ((bvor a b)))))")
	}
	if op == "bvand" {
		x.emitOnce("bvand-ax", "(assert (forall ((a Int) (b Int)) (! (and (=> (and (>= a 0) (>= b 0)) (and (<= (bvand a b) a) (<= (bvand a b) b) (>= (bvand a b) 0))) (= (bvand a b) (bvand b a)) (= (bvand a 0) 0) (= (bvand a a) a)) :pattern ((bvand a b)))))")
	}
	return I(n)
}

func constInt(v ssa.Value) (int64, bool) {
	c, ok := v.(*ssa.Const)
	if !ok || c.Value == nil || c.Value.Kind() != constant.Int {
		return 0, false
	}
	n, exact := constant.Int64Val(c.Value)
	return n, exact
}

func isMask(c int64) bool { return c > 0 && (c&(c+1)) == 0 }

func (x *Exec) pow2(y string) string {
	// constant exponent?
	var n int
	if _, err := fmt.Sscanf(y, "%d", &n); err == nil && fmt.Sprint(n) == y && n >= 0 && n < 64 {
		return fmt.Sprintf("%d", uint64(1)<<uint(n))
	}
	if !x.declared["pow2"] {
		x.declareFun("pow2", "(Int) Int")
		var sb strings.Builder
		for k := 0; k <= 63; k++ {
			fmt.Fprintf(&sb, "(assert (= (pow2 %d) %d))\n", k, uint64(1)<<uint(k))
		}
		x.emitGlobal(strings.TrimSpace(sb.String()))
	}
	return sx("pow2", y)
}

func goDiv(a, b string, unsigned bool) string {
	if unsigned {
		return sx("div", a, b)
	}
	// truncated division
	return sx("ite", sx(">=", a, "0"),
		sx("ite", sx(">", b, "0"), sx("div", a, b), sx("-", sx("div", a, sx("-", b)))),
		sx("ite", sx(">", b, "0"), sx("-", sx("div", sx("-", a), b)), sx("div", sx("-", a), sx("-", b))))
}

func goRem(a, b string, unsigned bool) string {
	if unsigned {
		return sx("mod", a, b)
	}
	return sx("-", a, sx("*", b, goDiv(a, b, false)))
}

func (x *Exec) equal(a, b Val, t types.Type) string {
	switch av := a.(type) {
	case Sc:
		bv, ok := b.(Sc)
		if !ok {
			if bi, ok := b.(IfaceV); ok {
				return sx("and", sx("=", bi.Tag, "0"), sx("=", av.T, "0"))
			}
			return x.fresh("eq", "Bool")
		}
		return sx("=", av.T, bv.T)
	case IfaceV:
		switch bv := b.(type) {
		case IfaceV:
			if bv.Tag == "0" {
				return sx("=", av.Tag, "0")
			}
			if av.Tag == "0" {
				return sx("=", bv.Tag, "0")
			}
			return sx("and", sx("=", av.Tag, bv.Tag), sx("=", av.Ref, bv.Ref))
		case Sc:
			if bv.T == "0" {
				return sx("=", av.Tag, "0")
			}
		}
		return x.fresh("eq", "Bool")
	case SliceV:
		// only comparison with nil is legal
		return sx("=", av.Arr, "0")
	case StructV:
		bv, ok := b.(StructV)
		if !ok || len(bv.F) != len(av.F) {
			return x.fresh("eq", "Bool")
		}
		s, _ := t.Underlying().(*types.Struct)
		var cs []string
		for i := range av.F {
			var ft types.Type
			if s != nil {
				ft = s.Field(i).Type()
			}
			cs = append(cs, x.equal(av.F[i], bv.F[i], ft))
		}
		return and(cs...)
	}
	if _, ok := b.(SliceV); ok {
		return sx("=", b.(SliceV).Arr, "0")
	}
	return x.fresh("eq", "Bool")
}

func (x *Exec) convert(fr *Frame, st *State, reach string, i *ssa.Convert) Val {
	v := x.value(fr, i.X)
	from, to := i.X.Type(), i.Type()
	fk, tk := kindOf(from), kindOf(to)
	switch {
	case fk == KInt && tk == KInt:
		sc := v.(Sc)
		flo, fhi, ok1 := intRange(from)
		tlo, thi, ok2 := intRange(to)
		if ok1 && ok2 && flo.Cmp(tlo) >= 0 && fhi.Cmp(thi) <= 0 {
			return sc
		}
		if ok2 {
			// guarded form: the common in-range case stays linear
			return I(sx("ite", sx("and", sx("<=", bigNum(tlo), sc.T), sx("<=", sc.T, bigNum(thi))), sc.T, wrapTerm(to, sc.T, false)))
		}
		return I(wrapTerm(to, sc.T, false))
	case fk == KStr && tk == KSlice: // []byte(s)
		x.declSort("Str")
		arr := x.newRef(st, "b")
		ln := sx("strlen", v.(Sc).T)
		sv := SliceV{arr, "0", ln, ln}
		// content of the new slice equals the string
		x.assume(reach, sx("=", x.bytesVal(st, sv), v.(Sc).T))
		return sv
	case fk == KSlice && tk == KStr: // string(b)
		x.declSort("Str")
		return Sc{T: x.bytesVal(st, v.(SliceV)), S: "Str"}
	case fk == KPtr && tk == KPtr:
		// unsafe.Pointer conversions: keep the integer, drop the location
		if sc, ok := v.(Sc); ok {
			// unsafe.Pointer -> *T for a scalar T: the cell lives in raw memory (see rawMem)
			if fb, isb := from.Underlying().(*types.Basic); isb && fb.Kind() == types.UnsafePointer {
				if et := derefType(to); et != nil {
					if k := kindOf(et); k == KInt || k == KBool || k == KPtr {
						return Sc{T: sc.T, S: "Int", Loc: &Loc{Kind: LElem, Base: "E$" + typeKey(et), Arr: x.rawMem(), Idx: x.define("rawix", "Int", x.rawIndex(sc.T, et))}}
					}
				}
			}
			return Sc{T: sc.T, S: "Int"}
		}
	case fk == KInt && tk == KReal:
		return Sc{T: sx("to_real", v.(Sc).T), S: "Real"}
	case fk == KReal && tk == KInt:
		n := x.fresh("f2i", "Int")
		x.assume("true", rangeFormula(to, n))
		sc := v.(Sc)
		// truncation toward zero for values in range
		x.assume("true", sx("=>", sx(">=", sc.T, "0.0"), sx("and", sx("<=", sx("to_real", n), sc.T), sx("<", sx("-", sc.T, "1.0"), sx("to_real", n)))))
		return I(n)
	case fk == KPtr && tk == KInt, fk == KInt && tk == KPtr:
		if sc, ok := v.(Sc); ok {
			if fk == KPtr {
				// A-unsafe-addr: a pointer turned into a number fits in 62 bits (amd64 user addresses are below 2^47), so
				// that adding a structure size to it neither wraps nor changes sign unnoticed (see rawIndex)
				x.assume(reach, sx("and", sx("<", "(- 4611686018427387904)", sc.T), sx("<", sc.T, "4611686018427387904")))
			}
			return Sc{T: sc.T, S: "Int"}
		}
	}
	x.warn("convert %s -> %s: havoc", from, to)
	return x.havocVal(to, i.Name())
}

// abstract content of a byte slice in the current state
func (x *Exec) bytesVal(st *State, s SliceV) string {
	x.declSort("Str")
	x.declareFun("bytesval", "((Array Int Int) Int Int) Str")
	x.emitOnce("bytesval-len", "(assert (forall ((r (Array Int Int)) (o Int) (l Int)) (! (=> (>= l 0) (= (strlen (bytesval r o l)) l)) :pattern ((bytesval r o l)))))")
	h := x.heap(st, "E$byte", arr2Sort("Int"))
	return sx("bytesval", sx("select", h, s.Arr), s.Off, s.Len)
}

func (x *Exec) typeAssert(fr *Frame, reach string, i *ssa.TypeAssert) {
	v := x.value(fr, i.X)
	iv, ok := v.(IfaceV)
	if !ok {
		x.set(fr, i, x.havocVal(i.Type(), i.Name()))
		return
	}
	if kindOf(i.AssertedType) == KIface {
		okv := x.fresh("taok", "Bool")
		if i.CommaOk {
			x.assume(reach, sx("=>", okv, sx("not", sx("=", iv.Tag, "0"))))
			x.set(fr, i, TupleV{[]Val{x.mergeVal(okv, iv, IfaceV{"0", "0"}), B(okv)}})
		} else {
			x.set(fr, i, iv)
		}
		return
	}
	tag := x.typeTag(i.AssertedType)
	okT := sx("=", iv.Tag, tag)
	var res Val
	switch kindOf(i.AssertedType) {
	case KInt, KPtr:
		res = I(iv.Ref)
	default:
		res = x.havocVal(i.AssertedType, i.Name())
	}
	if i.CommaOk {
		x.set(fr, i, TupleV{[]Val{res, B(okT)}})
		return
	}
	// failing assertion panics: assumed not to happen (listed as assumption)
	x.assume(reach, okT)
	x.assumeTyped(reach, i.AssertedType, res)
	x.set(fr, i, res)
}

func (x *Exec) sliceInstr(fr *Frame, st *State, reach string, i *ssa.Slice) {
	v := x.value(fr, i.X)
	var lo, hi string
	if i.Low != nil {
		lo = x.value(fr, i.Low).(Sc).T
	} else {
		lo = "0"
	}
	switch xv := v.(type) {
	case SliceV:
		if i.High != nil {
			hi = x.value(fr, i.High).(Sc).T
		} else {
			hi = xv.Len
		}
		capv := xv.Cap
		bound := capv
		if _, isStr := i.X.Type().Underlying().(*types.Basic); isStr {
			bound = xv.Len
		}
		x.oblige(x.oblName(fr, "nopanic", i.Pos(), "slice"), "nopanic", reach, sx("and", sx("<=", "0", lo), sx("<=", lo, hi), sx("<=", hi, bound)), nil, x.posText(i.Pos())+": slice bounds in range")
		ncap := sx("-", capv, lo)
		if i.Max != nil {
			mx := x.value(fr, i.Max).(Sc).T
			ncap = sx("-", mx, lo)
		}
		nsv := x.nameVal(fr.tag+i.Name(), SliceV{xv.Arr, sx("+", xv.Off, lo), sx("-", hi, lo), ncap}).(SliceV)
		// provenance of the offset: base offset of the slice this one was cut from + logical shift
		pb, pr := x.offBaseOf(xv.Off)
		if lo == "0" {
			x.setOffBase(nsv.Off, pb, pr)
		} else if pr == "0" {
			x.setOffBase(nsv.Off, pb, lo)
		} else {
			x.setOffBase(nsv.Off, pb, x.define("rel", "Int", sx("+", pr, lo)))
		}
		x.set(fr, i, nsv)
	case Sc:
		if xv.S == "Str" {
			x.warn("string slicing: havoc")
			x.set(fr, i, x.havocVal(i.Type(), i.Name()))
			return
		}
		at, ok := derefType(i.X.Type()).Underlying().(*types.Array)
		if !ok {
			x.warn("slice of unsupported operand")
			x.set(fr, i, x.havocVal(i.Type(), i.Name()))
			return
		}
		n := num(at.Len())
		if i.High != nil {
			hi = x.value(fr, i.High).(Sc).T
		} else {
			hi = n
		}
		x.oblige(x.oblName(fr, "nopanic", i.Pos(), "slice"), "nopanic", reach, sx("and", sx("<=", "0", lo), sx("<=", lo, hi), sx("<=", hi, n)), nil, x.posText(i.Pos())+": slice bounds in range")
		x.set(fr, i, SliceV{xv.T, lo, sx("-", hi, lo), sx("-", n, lo)})
	default:
		x.set(fr, i, x.havocVal(i.Type(), i.Name()))
	}
}

// ---------------------------------------------------------------- maps

func mapSorts(mt *types.Map) (k, v string) {
	k = sortOfKind(kindOf(mt.Key()))
	v = sortOfKind(kindOf(mt.Elem()))
	return
}

func mapHeapBase(mt *types.Map) string {
	return "M$" + typeKey(mt.Key()) + "$" + typeKey(mt.Elem())
}

func (x *Exec) mapHeaps(st *State, mt *types.Map) (dom, val, card string, ks, vs string) {
	ks, vs = mapSorts(mt)
	if ks == "" {
		ks = "Int"
		x.warn("map key type %s not scalar", mt.Key())
	}
	if ks == "Str" {
		x.declSort("Str")
	}
	base := mapHeapBase(mt)
	dom = x.heap(st, base+".dom", fmt.Sprintf("(Array Int (Array %s Bool))", ks))
	if vs != "" {
		if vs == "Str" {
			x.declSort("Str")
		}
		val = x.heap(st, base+".val", fmt.Sprintf("(Array Int (Array %s %s))", ks, vs))
	}
	card = x.heap(st, base+".card", "(Array Int Int)")
	return
}

func (x *Exec) mapInit(st *State, mt *types.Map, r string) {
	dom, _, card, ks, _ := x.mapHeaps(st, mt)
	base := mapHeapBase(mt)
	x.setHeap(st, base+".dom", fmt.Sprintf("(Array Int (Array %s Bool))", ks), sx("store", dom, r, fmt.Sprintf("((as const (Array %s Bool)) false)", ks)))
	x.setHeap(st, base+".card", "(Array Int Int)", sx("store", card, r, "0"))
}

func (x *Exec) mapStore(st *State, mt *types.Map, m string, k, v Val) {
	dom, val, card, ks, vs := x.mapHeaps(st, mt)
	base := mapHeapBase(mt)
	ksc, ok := k.(Sc)
	if !ok {
		x.fatal("map key not scalar")
		return
	}
	had := sx("select", sx("select", dom, m), ksc.T)
	x.setHeap(st, base+".card", "(Array Int Int)", sx("store", card, m, sx("+", sx("select", card, m), ite(had, "0", "1"))))
	x.setHeap(st, base+".dom", fmt.Sprintf("(Array Int (Array %s Bool))", ks), sx("store", dom, m, sx("store", sx("select", dom, m), ksc.T, "true")))
	if vs != "" {
		vsc, ok := v.(Sc)
		if !ok {
			x.fatal("map value not scalar")
			return
		}
		x.setHeap(st, base+".val", fmt.Sprintf("(Array Int (Array %s %s))", ks, vs), sx("store", val, m, sx("store", sx("select", val, m), ksc.T, vsc.T)))
	}
}

func (x *Exec) mapDelete(st *State, mt *types.Map, m string, k Val) {
	dom, _, card, ks, _ := x.mapHeaps(st, mt)
	base := mapHeapBase(mt)
	ksc := k.(Sc)
	had := sx("select", sx("select", dom, m), ksc.T)
	x.setHeap(st, base+".card", "(Array Int Int)", sx("store", card, m, sx("-", sx("select", card, m), ite(had, "1", "0"))))
	x.setHeap(st, base+".dom", fmt.Sprintf("(Array Int (Array %s Bool))", ks), sx("store", dom, m, sx("store", sx("select", dom, m), ksc.T, "false")))
}

func (x *Exec) lookup(fr *Frame, st *State, reach string, i *ssa.Lookup) {
	mt, ok := i.X.Type().Underlying().(*types.Map)
	if !ok {
		// string index
		x.warn("string index: havoc")
		x.set(fr, i, x.havocVal(i.Type(), i.Name()))
		return
	}
	m := x.value(fr, i.X).(Sc).T
	k, ok := x.value(fr, i.Index).(Sc)
	if !ok {
		x.set(fr, i, x.havocVal(i.Type(), i.Name()))
		return
	}
	dom, val, _, _, vs := x.mapHeaps(st, mt)
	had := sx("and", sx("not", sx("=", m, "0")), sx("select", sx("select", dom, m), k.T))
	var v Val
	if vs != "" {
		z := x.zeroVal(mt.Elem()).(Sc)
		v = Sc{T: ite(had, sx("select", sx("select", val, m), k.T), z.T), S: vs}
	} else {
		v = x.zeroVal(mt.Elem())
	}
	v = x.nameVal(fr.tag+i.Name(), v)
	x.assumeTyped(reach, mt.Elem(), v)
	if i.CommaOk {
		x.set(fr, i, TupleV{[]Val{v, B(x.define("has", "Bool", had))}})
	} else {
		x.set(fr, i, v)
	}
}

func (x *Exec) rangeInstr(fr *Frame, st *State, i *ssa.Range) {
	mt, ok := i.X.Type().Underlying().(*types.Map)
	if !ok {
		x.set(fr, i, IterV{Str: true})
		return
	}
	m := x.value(fr, i.X).(Sc).T
	ks, _ := mapSorts(mt)
	if ks == "" {
		ks = "Int"
	}
	vis := "IT$" + sanitize(funcKey(fr.fn)) + "$" + i.Name()
	sort := fmt.Sprintf("(Array %s Bool)", ks)
	x.heap(st, vis, sort)
	x.setHeap(st, vis, sort, fmt.Sprintf("((as const %s) false)", sort))
	x.set(fr, i, IterV{Map: m, MapT: mt, Vis: vis})
}

func (x *Exec) nextInstr(fr *Frame, st *State, reach string, i *ssa.Next) {
	it, ok := x.value(fr, i.Iter).(IterV)
	if !ok || it.Str {
		x.warn("range over string: havoc")
		x.set(fr, i, x.havocVal(i.Type(), i.Name()))
		return
	}
	dom, val, _, ks, vs := x.mapHeaps(st, it.MapT)
	sort := fmt.Sprintf("(Array %s Bool)", ks)
	vis := x.heap(st, it.Vis, sort)
	okc := x.fresh(fr.tag+i.Name()+".ok", "Bool")
	k := x.fresh(fr.tag+i.Name()+".k", ks)
	d := sx("select", dom, it.Map)
	x.assume(reach, sx("=>", okc, sx("and", sx("select", d, k), sx("not", sx("select", vis, k)))))
	x.assume(reach, sx("=>", sx("not", okc), fmt.Sprintf("(forall ((kk %s)) (=> (select %s kk) (select %s kk)))", ks, d, vis)))
	if it.Map != "" {
		x.assume(reach, sx("=>", sx("=", it.Map, "0"), sx("not", okc)))
	}
	kv := Sc{T: k, S: ks}
	x.assumeTyped(and(reach, okc), it.MapT.Key(), kv)
	var vv Val
	if vs != "" {
		vv = x.nameVal(fr.tag+i.Name()+".v", Sc{T: sx("select", sx("select", val, it.Map), k), S: vs})
		x.assumeTyped(and(reach, okc), it.MapT.Elem(), vv)
	} else {
		vv = x.zeroVal(it.MapT.Elem())
	}
	x.setHeap(st, it.Vis, sort, ite(okc, sx("store", vis, k, "true"), vis))
	x.set(fr, i, TupleV{[]Val{B(okc), kv, vv}})
}

func (x *Exec) sendInstr(fr *Frame, st *State, reach string, i *ssa.Send) {
	// ghost log: number of sends per channel object
	ch, ok := x.value(fr, i.Chan).(Sc)
	if !ok {
		return
	}
	h := x.heap(st, "G$sent", "(Array Int Int)")
	x.setHeap(st, "G$sent", "(Array Int Int)", sx("store", h, ch.T, sx("+", sx("select", h, ch.T), "1")))
	if vs, ok := x.value(fr, i.X).(IfaceV); ok {
		hv := x.heap(st, "G$sentnil", "(Array Int Bool)")
		x.setHeap(st, "G$sentnil", "(Array Int Bool)", sx("store", hv, ch.T, sx("=", vs.Tag, "0")))
		hr := x.heap(st, "G$sentval.tag", "(Array Int Int)")
		x.setHeap(st, "G$sentval.tag", "(Array Int Int)", sx("store", hr, ch.T, vs.Tag))
		hr2 := x.heap(st, "G$sentval.ref", "(Array Int Int)")
		x.setHeap(st, "G$sentval.ref", "(Array Int Int)", sx("store", hr2, ch.T, vs.Ref))
	}
}

// every reference stored in memory refers to an object allocated so far (well-typed heap)
func (x *Exec) assumeAllocated(guard string, st *State, v Val) {
	switch vv := v.(type) {
	case SliceV:
		x.assume(guard, sx("and", sx("<=", "0", vv.Arr), sx("<=", vv.Arr, st.alc)))
	case StructV:
		for _, f := range vv.F {
			x.assumeAllocated(guard, st, f)
		}
	}
}

func litInt(s string) (int64, bool) {
	var n int64
	if _, err := fmt.Sscanf(s, "%d", &n); err == nil && fmt.Sprint(n) == s && n >= 0 {
		return n, true
	}
	return 0, false
}

// eptr(arr, i): address of element i of a backing array (pointer into an array). Such addresses are
// negative: they never coincide with the reference of a separately allocated object.
func (x *Exec) declEptr() {
	if x.declared["eptr"] {
		return
	}
	x.declareFun("eptr", "(Int Int) Int")
	x.emitGlobal("(assert (forall ((a Int) (i Int)) (! (< (eptr a i) 0) :pattern ((eptr a i)))))")
}
