package main

import (
	"fmt"
	"go/types"
	"sort"
	"strings"

	"golang.org/x/tools/go/ssa"
)

// ---------------------------------------------------------------- contract environments

func (x *Exec) newCtx(cur, old *State, pkg, guard string, fr *Frame) *SpecCtx {
	return &SpecCtx{x: x, cur: cur, old: old, env: map[string]envEntry{}, pkg: pkg, guard: guard, fr: fr, qn: &x.n}
}

func resultNames(fn *ssa.Function, sig *types.Signature, con *Contract) []string {
	n := sig.Results().Len()
	names := make([]string, n)
	for i := 0; i < n; i++ {
		if con != nil && i < len(con.Results) {
			names[i] = con.Results[i]
			continue
		}
		if nm := sig.Results().At(i).Name(); nm != "" && nm != "_" {
			names[i] = nm
			continue
		}
		if n == 1 {
			names[i] = "result"
		} else {
			names[i] = fmt.Sprintf("result%d", i)
		}
	}
	return names
}

// bind parameters (receiver first) and results of a signature
func (x *Exec) bindSig(c *SpecCtx, sig *types.Signature, paramNames []string, args []Val, con *Contract, fn *ssa.Function, results []Val) {
	var ptypes []types.Type
	if sig.Recv() != nil {
		ptypes = append(ptypes, sig.Recv().Type())
	}
	for i := 0; i < sig.Params().Len(); i++ {
		ptypes = append(ptypes, sig.Params().At(i).Type())
	}
	for i, n := range paramNames {
		if i < len(args) && i < len(ptypes) && n != "" && n != "_" {
			c.env[n] = envEntry{v: args[i], t: ptypes[i]}
		}
	}
	if results != nil {
		rn := resultNames(fn, sig, con)
		for i, n := range rn {
			if i < len(results) {
				c.env[n] = envEntry{v: results[i], t: sig.Results().At(i).Type()}
			}
		}
		if len(rn) == 1 {
			c.env["result"] = envEntry{v: results[0], t: sig.Results().At(0).Type()}
		}
	}
}

func paramNamesOf(fn *ssa.Function, sig *types.Signature) []string {
	var names []string
	if fn != nil && len(fn.Params) > 0 {
		for _, p := range fn.Params {
			names = append(names, p.Name())
		}
		return names
	}
	if sig.Recv() != nil {
		names = append(names, sig.Recv().Name())
	}
	for i := 0; i < sig.Params().Len(); i++ {
		names = append(names, sig.Params().At(i).Name())
	}
	return names
}

// ---------------------------------------------------------------- modifies

// applyModifies havocs the locations named by the contract's modifies clauses.
// Returns the list of (heap name) touched wholesale and location descriptors for the frame check.
type modLoc struct {
	heap  string // heap name (with component suffix)
	whole bool
	ref   string // object / array row that may change (evaluated in the pre-state)
	lo    string // window(s): only the elements lo <= i < hi of the row may change ("" = the whole row)
	hi    string
}

func (x *Exec) modTargets(c *SpecCtx, con *Contract) ([]modLoc, bool, error) {
	var out []modLoc
	if len(con.Modifies) == 0 {
		return nil, false, nil
	}
	for _, cl := range con.Modifies {
		for _, m := range cl.Mods {
			ls, err := x.modTarget(c, m)
			if err != nil {
				return nil, true, fmt.Errorf("%s:%d: modifies: %v", cl.File, cl.Line, err)
			}
			out = append(out, ls...)
		}
	}
	return out, true, nil
}

func (x *Exec) compNames(base string, t types.Type) []comp {
	cs := x.comps(t)
	var out []comp
	for _, c := range cs {
		out = append(out, comp{base + c.suffix, c.sort})
	}
	return out
}

func (x *Exec) modTarget(c *SpecCtx, m Expr) (res []modLoc, err error) {
	defer func() {
		if r := recover(); r != nil {
			if se, ok := r.(specErr); ok {
				err = fmt.Errorf("%s", se.msg)
				return
			}
			panic(r)
		}
	}()
	oc := c.inOld()
	if oc.cur == nil {
		oc = c
	}
	switch n := m.(type) {
	case *ECall:
		switch n.Fun {
		case "elems": // elems(sliceexpr): the row of the backing array
			v, t := oc.eval(n.Args[0])
			sv, ok := v.(SliceV)
			if !ok {
				return nil, fmt.Errorf("elems() of non-slice")
			}
			et := t.Underlying().(*types.Slice).Elem()
			if kindOf(et) == KStruct {
				return nil, fmt.Errorf("elems() of struct slices: name the fields with allelems")
			}
			for _, cn := range x.compNames("E$"+typeKey(et), et) {
				x.eng.heapSorts[cn.suffix] = arr2Sort(cn.sort)
				res = append(res, modLoc{heap: cn.suffix, ref: sv.Arr})
			}
			return res, nil
		case "window": // window(sliceexpr): the elements off .. off+len-1 of the backing array, nothing else of it
			v, t := oc.eval(n.Args[0])
			sv, ok := v.(SliceV)
			if !ok {
				return nil, fmt.Errorf("window() of non-slice")
			}
			et := t.Underlying().(*types.Slice).Elem()
			if kindOf(et) == KStruct {
				return nil, fmt.Errorf("window() of struct slices is not supported")
			}
			for _, cn := range x.compNames("E$"+typeKey(et), et) {
				x.eng.heapSorts[cn.suffix] = arr2Sort(cn.sort)
				res = append(res, modLoc{heap: cn.suffix, ref: sv.Arr, lo: sv.Off, hi: sx("+", sv.Off, sv.Len)})
			}
			return res, nil
		case "allelems": // allelems("common.Pgid")
			s, ok := n.Args[0].(*EStr)
			if !ok {
				return nil, fmt.Errorf("allelems(\"type\")")
			}
			t, err := x.eng.resolveType(c.pkg, s.V)
			if err != nil {
				return nil, err
			}
			for _, cn := range x.compNames("E$"+typeKey(t), t) {
				x.eng.heapSorts[cn.suffix] = arr2Sort(cn.sort)
				res = append(res, modLoc{heap: cn.suffix, whole: true})
			}
			return res, nil
		case "mapof": // mapof(mapexpr)
			v, t := oc.eval(n.Args[0])
			mt, ok := t.Underlying().(*types.Map)
			if !ok {
				return nil, fmt.Errorf("mapof() of non-map")
			}
			x.mapHeaps(oc.cur, mt)
			base := mapHeapBase(mt)
			for _, suf := range []string{".dom", ".val", ".card"} {
				if _, ok := x.eng.heapSorts[base+suf]; ok {
					res = append(res, modLoc{heap: base + suf, ref: v.(Sc).T})
				}
			}
			return res, nil
		case "allmaps": // allmaps("K","V")
			k, _ := n.Args[0].(*EStr)
			v, _ := n.Args[1].(*EStr)
			kt, err := x.eng.resolveType(c.pkg, k.V)
			if err != nil {
				return nil, err
			}
			vt, err := x.eng.resolveType(c.pkg, v.V)
			if err != nil {
				return nil, err
			}
			mt := types.NewMap(kt, vt)
			x.mapHeaps(oc.cur, mt)
			base := mapHeapBase(mt)
			for _, suf := range []string{".dom", ".val", ".card"} {
				if _, ok := x.eng.heapSorts[base+suf]; ok {
					res = append(res, modLoc{heap: base + suf, whole: true})
				}
			}
			return res, nil
		case "all": // all("T.f"): whole field heap
			s, ok := n.Args[0].(*EStr)
			if !ok {
				return nil, fmt.Errorf("all(\"T.f\")")
			}
			return x.wholeField(c, s.V)
		case "everything":
			return []modLoc{{heap: "*", whole: true}}, nil
		case "nonghost":
			return []modLoc{{heap: "*nonghost", whole: true}}, nil
		}
		return nil, fmt.Errorf("unknown modifies form %s()", n.Fun)
	case *ESel:
		// x.f : single location
		v, t := oc.eval(n.X)
		st := t
		if p, ok := t.Underlying().(*types.Pointer); ok {
			st = p.Elem()
		}
		addr := ""
		switch vv := v.(type) {
		case Sc:
			addr = vv.T
		case AddrV:
			addr = vv.Addr
		default:
			return nil, fmt.Errorf("modifies %s: object expected", n.Name)
		}
		return x.fieldLocs(c, st, n.Name, addr)
	case *EIdent:
		if g, ok := x.eng.ghostVars[n.Name]; ok {
			gt, err := x.eng.resolveSpecType(g.Pkg, g.Type)
			if err != nil {
				return nil, err
			}
			x.eng.heapSorts["G$"+n.Name] = specSort(gt)
			return []modLoc{{heap: "G$" + n.Name, whole: true}}, nil
		}
	}
	return nil, fmt.Errorf("unsupported modifies target")
}

func (x *Exec) fieldLocs(c *SpecCtx, st types.Type, name, addr string) ([]modLoc, error) {
	if g, ok := x.eng.ghostFlds[typeKey(st)+"."+name]; ok {
		gt, err := x.eng.resolveSpecType(g.Pkg, g.Type)
		if err != nil {
			return nil, err
		}
		h := "H$" + typeKey(st) + "$" + name
		x.eng.heapSorts[h] = arrSort(specSort(gt))
		if addr == "" {
			return []modLoc{{heap: h, whole: true}}, nil
		}
		return []modLoc{{heap: h, ref: addr}}, nil
	}
	s, ok := st.Underlying().(*types.Struct)
	if !ok {
		return nil, fmt.Errorf("modifies .%s: not a struct (%s)", name, st)
	}
	for i := 0; i < s.NumFields(); i++ {
		f := s.Field(i)
		if f.Name() == name {
			return x.fieldLocsT(st, f, addr), nil
		}
	}
	// promoted
	for i := 0; i < s.NumFields(); i++ {
		f := s.Field(i)
		if !f.Embedded() {
			continue
		}
		bt := f.Type()
		isPtr := false
		if p, ok := bt.Underlying().(*types.Pointer); ok {
			bt, isPtr = p.Elem(), true
		}
		if !hasFieldDeep(x.eng, bt, name) {
			continue
		}
		if addr == "" {
			return x.fieldLocs(c, bt, name, "")
		}
		loc := &Loc{Kind: LField, Base: fieldHeap(st, f), Ref: addr}
		var inner string
		if isPtr {
			inner = x.load(c.old, loc, f.Type()).(Sc).T
		} else {
			inner = x.structAddr(loc)
		}
		return x.fieldLocs(c, bt, name, inner)
	}
	return nil, fmt.Errorf("no field %s in %s", name, st)
}

func (x *Exec) fieldLocsT(st types.Type, f *types.Var, addr string) []modLoc {
	var res []modLoc
	base := fieldHeap(st, f)
	if kindOf(f.Type()) == KStruct {
		// all fields of the embedded struct value
		inner := ""
		if addr != "" {
			inner = x.structAddr(&Loc{Kind: LField, Base: base, Ref: addr})
		}
		s := f.Type().Underlying().(*types.Struct)
		for i := 0; i < s.NumFields(); i++ {
			res = append(res, x.fieldLocsT(f.Type(), s.Field(i), inner)...)
		}
		return res
	}
	for _, cn := range x.compNames(base, f.Type()) {
		x.eng.heapSorts[cn.suffix] = arrSort(cn.sort)
		res = append(res, modLoc{heap: cn.suffix, whole: addr == "", ref: addr})
	}
	return res
}

func (x *Exec) wholeField(c *SpecCtx, tf string) ([]modLoc, error) {
	k := strings.LastIndex(tf, ".")
	if k < 0 {
		return nil, fmt.Errorf("all(\"T.f\")")
	}
	t, err := x.eng.resolveType(c.pkg, tf[:k])
	if err != nil {
		return nil, err
	}
	return x.fieldLocs(c, t, tf[k+1:], "")
}

func isGhostHeap(name string, e *Engine) bool {
	if strings.HasPrefix(name, "G$") {
		return true
	}
	if strings.HasPrefix(name, "H$") {
		// H$T$f: ghost if registered as ghost field
		parts := strings.SplitN(strings.TrimPrefix(name, "H$"), "$", 2)
		if len(parts) == 2 {
			f := parts[1]
			if k := strings.Index(f, "."); k >= 0 {
				f = f[:k]
			}
			if _, ok := e.ghostFlds[parts[0]+"."+f]; ok {
				return true
			}
		}
	}
	return false
}

func (x *Exec) applyMods(st *State, mods []modLoc) {
	for _, m := range mods {
		if m.heap == "*" || m.heap == "*nonghost" {
			var names []string
			for n := range x.eng.heapSorts {
				names = append(names, n)
			}
			for n := range st.heap {
				names = append(names, n)
			}
			sort.Strings(names)
			prev := ""
			for _, n := range names {
				if n == prev {
					continue
				}
				prev = n
				if strings.HasPrefix(n, "IT$") || strings.HasPrefix(n, "A$") {
					continue
				}
				if m.heap == "*nonghost" && isGhostHeap(n, x.eng) {
					continue
				}
				x.havocHeap(st, n)
			}
			if m.heap == "*nonghost" {
				st.heap["*"] = fmt.Sprintf("?allng%d", x.n)
			} else {
				st.heap["*"] = fmt.Sprintf("?all%d", x.n)
			}
			continue
		}
		srt := x.eng.heapSorts[m.heap]
		if m.whole || srt == "" {
			x.havocHeapForce(st, m.heap)
			continue
		}
		h := x.heap(st, m.heap, srt)
		fresh := x.fresh("mod", arrayRange(srt))
		if m.lo != "" {
			// windowed: elements outside [lo, hi) keep their values
			x.emit(fmt.Sprintf("(assert (forall ((i$w Int)) (! (=> (not (and (<= %s i$w) (< i$w %s))) (= (select %s i$w) (select (select %s %s) i$w))) :pattern ((select %s i$w)))))", m.lo, m.hi, fresh, h, m.ref, fresh))
		}
		x.setHeap(st, m.heap, srt, sx("store", h, m.ref, fresh))
	}
}

// havocHeapForce: like havocHeap but also works for heaps not yet referenced (lazy placeholder).
func (x *Exec) havocHeapForce(st *State, name string) {
	if strings.HasPrefix(name, "G$calls$") && !strings.Contains(name, "$arg") {
		// the recorded arguments of the most recent call go with the call counter
		var extra []string
		for k := range st.heap {
			if strings.HasPrefix(k, name+"$arg") {
				extra = append(extra, k)
			}
		}
		for k := range x.eng.heapSorts {
			if strings.HasPrefix(k, name+"$arg") {
				extra = append(extra, k)
			}
		}
		sort.Strings(extra)
		prev := ""
		for _, k := range extra {
			if k != prev {
				x.havocHeapForce(st, k)
			}
			prev = k
		}
		// records not referenced so far ($argtotal, $argN, $argretN ... are created lazily) are havoced too: heap()
		// materialises them from this marker instead of from their entry version
		x.n++
		st.heap[name+"$arg*"] = fmt.Sprintf("?%d", x.n)
	}
	if _, ok := x.eng.heapSorts[name]; ok {
		x.havocHeap(st, name)
		return
	}
	x.n++
	st.heap[name] = fmt.Sprintf("?%d", x.n)
}

func (x *Exec) havocEffects(st *State, eff map[string]bool) {
	var names []string
	for n := range eff {
		names = append(names, n)
	}
	sort.Strings(names)
	for _, n := range names {
		if n == "*" {
			x.applyMods(st, []modLoc{{heap: "*nonghost", whole: true}})
			continue
		}
		x.havocHeapForce(st, n)
	}
	// allocation may have happened
	na := x.fresh("alc", "Int")
	x.emit(fmt.Sprintf("(assert (>= %s %s))", na, st.alc))
	st.alc = na
}

// ---------------------------------------------------------------- calls

func (x *Exec) call(fr *Frame, st *State, reach string, cc *ssa.CallCommon, ins ssa.Instruction, rt types.Type) Val {
	var args []Val
	for _, a := range cc.Args {
		args = append(args, x.value(fr, a))
	}
	// builtins
	if b, ok := cc.Value.(*ssa.Builtin); ok {
		return x.builtin(fr, st, reach, b, cc, args, ins, rt)
	}
	sig := cc.Signature()
	if cc.IsInvoke() {
		recv := x.value(fr, cc.Value)
		key := typeKey(cc.Value.Type()) + "." + cc.Method.Name()
		all := append([]Val{recv}, args...)
		if con := x.eng.contracts[key]; con != nil {
			return x.applyContract(fr, st, reach, con, nil, cc.Method.Type().(*types.Signature), all, ins, rt, key, cc.Value.Type())
		}
		x.assumed[key+" (interface call, no contract)"] = true
		x.havocEffects(st, x.eng.eff.callEffects(cc))
		v := x.havocVal(rt, "inv."+cc.Method.Name())
		return v
	}
	callee := cc.StaticCallee()
	var clo []Val
	if callee == nil {
		if fv, ok := x.value(fr, cc.Value).(Sc); ok {
			if fv.Fn != nil {
				callee = fv.Fn
				clo = fv.Clo
			} else if fv.Origin != "" {
				if con := x.eng.contracts[fv.Origin]; con != nil {
					return x.applyContract(fr, st, reach, con, nil, sig, args, ins, rt, fv.Origin, nil)
				}
			}
		}
	} else if mc, ok := cc.Value.(*ssa.MakeClosure); ok {
		for _, b := range mc.Bindings {
			clo = append(clo, x.value(fr, b))
		}
	}
	if callee == nil {
		// unknown function value: user callback (A-user) or unresolved
		pureCb := false
		if par, ok := cc.Value.(*ssa.Parameter); ok && fr.con != nil {
			for _, pn := range fr.con.CallbackPure {
				if pn == par.Name() {
					pureCb = true
				}
			}
		}
		if pureCb {
			x.assumed["dynamic call "+cc.Value.Name()+" in "+funcKey(fr.fn)+" assumed to have no side effects (callback pure: A-user)"] = true
		} else {
			x.assumed["dynamic call "+cc.Value.Name()+" in "+funcKey(fr.fn)+" (callback: havoc of all non-ghost state)"] = true
			x.applyMods(st, []modLoc{{heap: "*nonghost", whole: true}})
		}
		na := x.fresh("alc", "Int")
		x.emit(fmt.Sprintf("(assert (>= %s %s))", na, st.alc))
		st.alc = na
		res := x.havocVal(rt, "dyn")
		if par, ok := cc.Value.(*ssa.Parameter); ok && x.con != nil && fr.top {
			for _, inv := range x.con.Invokes {
				if inv == par.Name() {
					for k, cl := range x.con.CallbackProvides {
						cp := x.newCtx(st, topFrame.entry, x.con.Pkg, reach, fr)
						x.bindFrameNames(fr, ins.Block(), cp)
						x.bindBlockNames(fr, ins.Block(), cp)
						for ai := range args {
							cp.env[fmt.Sprintf("cbarg%d", ai)] = envEntry{v: args[ai], t: cc.Args[ai].Type()}
						}
						f, err := cp.formula(cl.E)
						if err != nil {
							x.fatal("%s:%d: callback provides: %v", cl.File, cl.Line, err)
							continue
						}
						lbl := cl.Label
						if lbl == "" {
							lbl = fmt.Sprint(k)
						}
						x.oblige(x.oblName(fr, "provides", ins.Pos(), inv+"."+lbl), "provides", reach, f, cl, x.posText(ins.Pos())+": at the invocation of "+inv+": "+cl.Text)
					}
					flag := "G$invoked$" + inv
					prev := x.heap(st, flag, "Bool")
					x.oblige(x.oblName(fr, "invokes", ins.Pos(), inv+".once"), "invokes", reach, not(prev), nil, x.posText(ins.Pos())+": "+inv+" is invoked at most once")
					x.setHeap(st, flag, "Bool", "true")
					if iv, ok := res.(IfaceV); ok {
						x.heap(st, "G$cbresult$"+inv+".tag", "Int")
						x.setHeap(st, "G$cbresult$"+inv+".tag", "Int", iv.Tag)
						x.heap(st, "G$cbresult$"+inv+".ref", "Int")
						x.setHeap(st, "G$cbresult$"+inv+".ref", "Int", iv.Ref)
					}
				}
			}
		}
		x.assumeCallbackClauses(fr, st, reach, ins)
		return res
	}
	key := funcKey(callee)
	if v, ok := x.libModel(fr, st, reach, callee, key, args, ins, rt); ok {
		return v
	}
	con := x.eng.contracts[key]
	if con != nil && !con.Inline {
		x.curClo = clo
		v := x.applyContract(fr, st, reach, con, callee, callee.Signature, args, ins, rt, key, nil)
		x.curClo = nil
		return v
	}
	// inline small loop-free callees (accessors, helpers)
	if x.inlinable(callee, fr.depth) || (con != nil && con.Inline) {
		return x.inlineCall(fr, st, reach, callee, args, clo, rt)
	}
	x.assumed[key+" (no contract: havoc of inferred effects)"] = true
	x.havocEffects(st, x.eng.eff.funcEffects(callee))
	// function values passed to an uncontracted callee may be called by it
	for _, a := range args {
		if fv, ok := a.(Sc); ok && fv.Fn != nil {
			x.havocEffects(st, x.eng.eff.funcEffects(fv.Fn))
		}
	}
	v := x.havocVal(rt, "call."+callee.Name())
	return v
}

func (x *Exec) inlinable(fn *ssa.Function, depth int) bool {
	if fn.Blocks == nil || depth >= 4 {
		return false
	}
	if len(findLoops(fn)) > 0 {
		return false
	}
	n := 0
	for _, b := range fn.Blocks {
		for _, ins := range b.Instrs {
			if _, ok := ins.(*ssa.DebugRef); ok {
				continue
			}
			n++
			switch ins.(type) {
			case *ssa.Defer, *ssa.Go, *ssa.Select:
				return false
			}
		}
	}
	if fn.Pkg == nil || !strings.HasPrefix(fn.Pkg.Pkg.Path(), "go.etcd.io/bbolt") {
		return false
	}
	return n <= 60
}

func (x *Exec) inlineCall(fr *Frame, st *State, reach string, callee *ssa.Function, args []Val, clo []Val, rt types.Type) Val {
	x.n++
	tag := fmt.Sprintf("%s.%s%d", fr.tag, callee.Name(), x.n)
	x.inlineDepth++
	sub := x.runBody(callee, args, clo, st, reach, false, nil, fr.depth+1, tag)
	x.inlineDepth--
	if len(sub.rets) == 0 {
		// callee never returns (always panics)
		x.assume(reach, "false")
		return x.havocVal(rt, "noret")
	}
	var conds []string
	var sts []*State
	for _, r := range sub.rets {
		conds = append(conds, r.guard)
		sts = append(sts, r.st)
	}
	// paths that panic inside the callee do not continue: the caller continues only if some return was reached
	x.assume(reach, or(conds...))
	merged := x.mergeStates(conds, sts)
	*st = *merged
	var result Val
	nres := callee.Signature.Results().Len()
	if nres == 0 {
		return TupleV{}
	}
	build := func(r retRec) Val {
		if nres == 1 {
			return r.vals[0]
		}
		return TupleV{E: r.vals}
	}
	result = build(sub.rets[len(sub.rets)-1])
	for k := len(sub.rets) - 2; k >= 0; k-- {
		result = x.mergeVal(conds[k], build(sub.rets[k]), result)
	}
	return x.nameVal(tag+".ret", result)
}

func (x *Exec) applyContract(fr *Frame, st *State, reach string, con *Contract, callee *ssa.Function, sig *types.Signature, args []Val, ins ssa.Instruction, rt types.Type, key string, recvT types.Type) Val {
	x.usedContracts[key] = true
	if con.Trusted {
		x.trustedUsed[key] = true
	}
	if con.Opaque {
		x.assumed["opaque contract assumed at call sites (body not verified): "+key] = true
	} else if con.NoFrame && len(con.Modifies) > 0 {
		x.assumed["modifies clause of "+key+" assumed at call sites (noframe: not checked against its body)"] = true
	}
	if len(con.CallbackProvides) > 0 && con.Opaque {
		x.assumed["callback provides clause of "+key+" assumed (opaque)"] = true
	}
	pre := st.clone()
	pnames := paramNamesOf(callee, sig)
	if callee == nil && recvT == nil && len(con.ParamNames) > 0 {
		pnames = con.ParamNames
	}
	if callee == nil && recvT != nil {
		// interface method: receiver named "self"
		pnames = []string{"self"}
		for i := 0; i < sig.Params().Len(); i++ {
			pnames = append(pnames, sig.Params().At(i).Name())
		}
	}
	c := x.newCtx(st, pre, con.Pkg, reach, fr)
	if callee == nil && recvT != nil {
		// bind receiver with the interface type
		c.env["self"] = envEntry{v: args[0], t: recvT}
		sig = types.NewSignatureType(nil, nil, nil, sig.Params(), sig.Results(), sig.Variadic())
		x.bindSig(c, sig, pnames[1:], args[1:], con, callee, nil)
	} else {
		x.bindSig(c, sig, pnames, args, con, callee, nil)
		x.bindClosureVars(c, callee, x.curClo, pre)
	}
	closureVals := x.curClo
	short := key[strings.LastIndex(key, ".")+1:]
	site := x.posText(ins.Pos())
	// preconditions
	for k, cl := range con.Requires {
		f, err := c.formula(cl.E)
		if err != nil {
			x.fatal("%s:%d: requires of %s: %v", cl.File, cl.Line, key, err)
			continue
		}
		lbl := cl.Label
		if lbl == "" {
			lbl = fmt.Sprint(k)
		}
		x.oblige(x.oblName(fr, "pre", ins.Pos(), short+"."+lbl), "pre@call", reach, f, cl, site+": precondition of "+key+": "+cl.Text)
	}
	// call-site requirements imposed by the contract of the function being verified
	if x.con != nil && fr.top && topFrame != nil {
		for ck, cls := range x.con.CallSites {
			rk, err := x.eng.resolveKey(normKey(x.con.Pkg, ck))
			if err != nil || rk != key {
				continue
			}
			cc2 := x.newCtx(st, topFrame.entry, x.con.Pkg, reach, fr)
			x.bindFrameNames(fr, ins.Block(), cc2)
			x.bindBlockNames(fr, ins.Block(), cc2)
			ats := argTypes(callee, sig, recvT)
			for i, pn := range pnames {
				if i < len(args) && i < len(ats) && pn != "" {
					cc2.env["a_"+pn] = envEntry{v: args[i], t: ats[i]}
				}
			}
			for k, cl := range cls {
				f, err := cc2.formula(cl.E)
				if err != nil {
					x.fatal("%s:%d: callsite %s: %v", cl.File, cl.Line, ck, err)
					continue
				}
				lbl := cl.Label
				if lbl == "" {
					lbl = fmt.Sprint(k)
				}
				x.oblige(x.oblName(fr, "callsite", ins.Pos(), short+"."+lbl), "callsite", reach, f, cl, site+": every call of "+key+" satisfies: "+cl.Text)
			}
		}
	}
	for k, cl := range con.Panics {
		f, err := c.formula(cl.E)
		if err != nil {
			x.fatal("%s:%d: panics-when of %s: %v", cl.File, cl.Line, key, err)
			continue
		}
		// the caller must avoid the callee's panic condition unless its own contract allows a panic
		// under a condition (evaluated at entry) that covers it
		allowed := "false"
		if x.con != nil && len(x.con.Panics) > 0 && topFrame != nil {
			pc := x.newCtx(topFrame.entry, topFrame.entry, x.con.Pkg, reach, fr)
			x.bindTop(pc, nil)
			var ps []string
			for _, pcl := range x.con.Panics {
				pf, err := pc.formula(pcl.E)
				if err == nil {
					ps = append(ps, pf)
				}
			}
			allowed = or(ps...)
		}
		x.oblige(x.oblName(fr, "nopanic", ins.Pos(), short+".panics"+fmt.Sprint(k)), "nopanic", reach, implies(f, allowed), cl, site+": "+key+" panics when "+cl.Text+" (must be excluded, or covered by this function's own 'panics when')")
		x.assume(reach, not(f))
	}
	// frame
	mods, has, err := x.modTargets(c, con)
	if err != nil {
		x.fatal("%v", err)
	}
	defer func() {
		// ghost call counter: calls(key, receiver)
		idx := "0"
		if len(args) > 0 {
			if sc, ok := args[0].(Sc); ok && sc.S == "Int" {
				idx = sc.T
			} else if iv, ok := args[0].(IfaceV); ok {
				idx = iv.Ref
			}
		}
		name := callCounter(key)
		h := x.heap(st, name, "(Array Int Int)")
		x.setHeap(st, name, "(Array Int Int)", sx("store", h, idx, sx("+", sx("select", h, idx), "1")))
		// total over all receivers at index -1: callstotal("key")
		tot := x.heap(st, name+"$argtotal", "Int")
		x.setHeap(st, name+"$argtotal", "Int", sx("+", tot, "1"))
		// ghost record of the arguments of the most recent call: lastarg("key", i)
		for ai, a := range args {
			an := fmt.Sprintf("%s$arg%d", callCounter(key), ai)
			switch av := a.(type) {
			case Sc:
				if av.S == "Int" || av.S == "Bool" || av.S == "Str" {
					x.heap(st, an, av.S)
					x.setHeap(st, an, av.S, av.T)
				}
			case IfaceV:
				x.heap(st, an, "Int")
				x.setHeap(st, an, "Int", av.Ref)
			case SliceV:
				// byte slices are recorded by content (as of the call), other slices by backing array
				if ai < len(argTypes(callee, sig, recvT)) {
					if sl, ok := argTypes(callee, sig, recvT)[ai].Underlying().(*types.Slice); ok {
						if bt, ok := sl.Elem().Underlying().(*types.Basic); ok && bt.Kind() == types.Uint8 {
							x.declSort("Str")
							x.heap(st, an, "Str")
							x.setHeap(st, an, "Str", x.bytesVal(pre, av))
							x.heap(st, an+".nil", "Bool")
							x.setHeap(st, an+".nil", "Bool", sx("=", av.Arr, "0"))
						}
					}
				}
				// every slice argument is also recorded by its header: lastargarr / lastargoff / lastarglen
				for _, c := range [][2]string{{".arr", av.Arr}, {".off", av.Off}, {".len", av.Len}} {
					x.heap(st, an+c[0], "Int")
					x.setHeap(st, an+c[0], "Int", c[1])
				}
			}
		}
	}()
	if has {
		x.applyMods(st, mods)
		// call counters of everything the callee may call (transitively) are part of its frame
		if callee != nil && callee.Blocks != nil {
			var cn []string
			for n := range x.eng.eff.funcEffects(callee) {
				if strings.HasPrefix(n, "G$calls$") {
					cn = append(cn, n)
				}
			}
			sort.Strings(cn)
			for _, n := range cn {
				x.havocHeapForce(st, n)
			}
		}
		na := x.fresh("alc", "Int")
		x.emit(fmt.Sprintf("(assert (>= %s %s))", na, st.alc))
		st.alc = na
	} else if callee != nil {
		x.havocEffects(st, x.eng.eff.funcEffects(callee))
	} else {
		x.applyMods(st, []modLoc{{heap: "*nonghost", whole: true}})
	}
	// a closure handed to a callee under contract that is NOT listed under 'invokes' may be called by it any number of
	// times: its write effects (including the captured variables of the caller) are havoced; what the callee's
	// ensures clauses say is assumed afterwards as usual
	if callee != nil {
		for pi, a := range args {
			fv, ok := a.(Sc)
			if !ok || fv.Fn == nil || pi >= len(callee.Params) {
				continue
			}
			listed := false
			for _, inv := range con.Invokes {
				if inv == callee.Params[pi].Name() {
					listed = true
				}
			}
			if !listed {
				x.assumed["closure "+funcKey(fv.Fn)+" passed to "+key+" (not under 'invokes'): its inferred effects are havoced at the call"] = true
				x.havocEffects(st, x.eng.eff.funcEffects(fv.Fn))
			}
		}
	}
	// higher-order protocol: parameters listed under 'invokes' are called at most once by the callee
	invokedFlag := map[string]string{}
	cbResult := map[string]Val{}
	if callee != nil {
		for _, inv := range con.Invokes {
			for pi, p := range callee.Params {
				if p.Name() != inv || pi >= len(args) {
					continue
				}
				fv, ok := args[pi].(Sc)
				g := x.fresh("invoked."+inv, "Bool")
				invokedFlag[inv] = g
				if !ok || fv.Fn == nil {
					// unknown function value passed on: its effect is a callback havoc under g
					after := st.clone()
					x.applyMods(after, []modLoc{{heap: "*nonghost", whole: true}})
					x.assumed["function value passed to "+key+" in "+funcKey(fr.fn)+" (callback: havoc of all non-ghost state)"] = true
					x.assumeCallbackClauses(fr, after, and(reach, g), ins)
					merged := x.mergeStates([]string{g, "true"}, []*State{after, st})
					merged.defers = st.defers
					*st = *merged
					psig, _ := p.Type().Underlying().(*types.Signature)
					if psig != nil && psig.Results().Len() == 1 {
						cbResult[inv] = x.havocVal(psig.Results().At(0).Type(), "cbres."+inv)
					}
					continue
				}
				// known closure: call it on a copy of the state under guard g
				after := st.clone()
				var cargs []Val
				for k := range fv.Fn.Params {
					cargs = append(cargs, x.havocVal(fv.Fn.Params[k].Type(), "cbarg"))
				}
				var crt types.Type = fv.Fn.Signature.Results()
				if fv.Fn.Signature.Results().Len() == 1 {
					crt = fv.Fn.Signature.Results().At(0).Type()
				}
				var cres Val
				ckey := funcKey(fv.Fn)
				// what the higher-order function guarantees about the arguments it passes (callback provides)
				for _, cl := range con.CallbackProvides {
					cp := x.newCtx(after, pre, con.Pkg, and(reach, g), fr)
					x.bindSig(cp, sig, pnames, args, con, callee, nil)
					for k := range cargs {
						cp.env[fmt.Sprintf("cbarg%d", k)] = envEntry{v: cargs[k], t: fv.Fn.Params[k].Type()}
					}
					// closures: the bound variables come first in Params? no - free variables are separate; Params are the declared ones
					f, err := cp.formula(cl.E)
					if err != nil {
						x.fatal("%s:%d: callback provides of %s: %v", cl.File, cl.Line, key, err)
						continue
					}
					x.assume(and(reach, g), f)
				}
				if ccon := x.eng.contracts[ckey]; ccon != nil {
					x.curClo = fv.Clo
					cres = x.applyContract(fr, after, and(reach, g), ccon, fv.Fn, fv.Fn.Signature, cargs, ins, crt, ckey, nil)
					x.curClo = closureVals
				} else {
					x.assumed[ckey+" (callback closure without contract: havoc of inferred effects)"] = true
					x.havocEffects(after, x.eng.eff.funcEffects(fv.Fn))
					cres = x.havocVal(crt, "cbres."+inv)
				}
				cbResult[inv] = cres
				merged := x.mergeStates([]string{g, "true"}, []*State{after, st})
				merged.defers = st.defers
				*st = *merged
			}
		}
	}
	// results
	res := x.havocVal(rt, "r."+short)
	var rvals []Val
	if tv, ok := res.(TupleV); ok && sig.Results().Len() != 1 {
		rvals = tv.E
	} else if sig.Results().Len() == 1 {
		rvals = []Val{res}
	}
	for i, rv := range rvals {
		if kindOf(sig.Results().At(i).Type()) == KPtr {
			if s, ok := rv.(Sc); ok {
				x.assume(reach, sx("<=", s.T, st.alc))
			}
		}
	}
	// ghost record of the results of the most recent call: lastret("key", i)
	for ri, rv := range rvals {
		rn := fmt.Sprintf("%s$argret%d", callCounter(key), ri)
		switch v := rv.(type) {
		case Sc:
			if v.S == "Int" || v.S == "Bool" || v.S == "Str" {
				x.heap(st, rn, v.S)
				x.setHeap(st, rn, v.S, v.T)
			}
		case IfaceV:
			x.heap(st, rn, "Int")
			x.setHeap(st, rn, "Int", v.Tag)
		case SliceV:
			if sl, ok := sig.Results().At(ri).Type().Underlying().(*types.Slice); ok {
				if bt, ok := sl.Elem().Underlying().(*types.Basic); ok && bt.Kind() == types.Uint8 {
					x.declSort("Str")
					x.heap(st, rn, "Str")
					x.setHeap(st, rn, "Str", x.bytesVal(st, v))
					x.heap(st, rn+".nil", "Bool")
					x.setHeap(st, rn+".nil", "Bool", sx("=", v.Arr, "0"))
				}
			}
			// every slice result is also recorded by its header: lastretarr / lastretoff / lastretlen
			for _, c := range [][2]string{{".arr", v.Arr}, {".off", v.Off}, {".len", v.Len}} {
				x.heap(st, rn+c[0], "Int")
				x.setHeap(st, rn+c[0], "Int", c[1])
			}
		}
	}
	c2 := x.newCtx(st, pre, con.Pkg, reach, fr)
	if callee == nil && recvT != nil {
		c2.env["self"] = envEntry{v: args[0], t: recvT}
		x.bindSig(c2, sig, pnames[1:], args[1:], con, callee, rvals)
	} else {
		x.bindSig(c2, sig, pnames, args, con, callee, rvals)
		x.bindClosureVars(c2, callee, closureVals, st)
	}
	for inv, g := range invokedFlag {
		c2.env["invoked$"+inv] = envEntry{v: B(g), t: tBool}
		if r, ok := cbResult[inv]; ok {
			c2.env["cbresult$"+inv] = envEntry{v: r, t: types.Universe.Lookup("error").Type()}
		}
	}
	for _, cl := range con.Ensures {
		f, err := c2.formula(cl.E)
		if err != nil {
			x.fatal("%s:%d: ensures of %s: %v", cl.File, cl.Line, key, err)
			continue
		}
		x.assume(reach, f)
	}
	return res
}

// panicAllowed: the verified function's own contract allows a panic under condition cond here.
func (x *Exec) panicAllowed(fr *Frame, st *State, reach, cond string) bool {
	return false
}

// ---------------------------------------------------------------- builtins

func (x *Exec) builtin(fr *Frame, st *State, reach string, b *ssa.Builtin, cc *ssa.CallCommon, args []Val, ins ssa.Instruction, rt types.Type) Val {
	switch b.Name() {
	case "len":
		switch a := args[0].(type) {
		case SliceV:
			return I(a.Len)
		case Sc:
			if a.S == "Str" {
				return I(sx("strlen", a.T))
			}
			if mt, ok := cc.Args[0].Type().Underlying().(*types.Map); ok {
				_, _, card, _, _ := x.mapHeaps(st, mt)
				n := x.define("maplen", "Int", sx("select", card, a.T))
				x.assume(reach, sx(">=", n, "0"))
				// a map that has a key is not empty (card is the number of keys)
				if dom, _, _, ks, _ := x.mapHeaps(st, mt); ks != "" {
					x.assume(reach, fmt.Sprintf("(forall ((k$l %s)) (! (=> (select (select %s %s) k$l) (> %s 0)) :pattern ((select (select %s %s) k$l))))", ks, dom, a.T, n, dom, a.T))
				}
				return I(n)
			}
		}
		return x.havocVal(rt, "len")
	case "cap":
		if a, ok := args[0].(SliceV); ok {
			return I(a.Cap)
		}
		return x.havocVal(rt, "cap")
	case "append":
		return x.appendBuiltin(fr, st, reach, cc, args, ins)
	case "copy":
		return x.copyBuiltin(fr, st, reach, cc, args)
	case "delete":
		mt := cc.Args[0].Type().Underlying().(*types.Map)
		m := args[0].(Sc).T
		// delete on a nil map is a no-op
		x.mapDelete(st, mt, m, args[1])
		return TupleV{}
	case "min", "max":
		a, bb := args[0].(Sc), args[1].(Sc)
		op := "<="
		if b.Name() == "max" {
			op = ">="
		}
		return Sc{T: ite(sx(op, a.T, bb.T), a.T, bb.T), S: a.S}
	case "Slice": // unsafe.Slice(ptr *T, n): a view of raw memory (A-unsafe), see rawView
		if st, ok := rt.Underlying().(*types.Slice); ok && kindOf(st.Elem()) != KStruct && kindOf(st.Elem()) != KArray {
			p, ok1 := args[0].(Sc)
			n, ok2 := args[1].(Sc)
			if ok1 && ok2 {
				return SliceV{Arr: x.rawMem(), Off: x.define("rawoff", "Int", x.rawIndex(p.T, st.Elem())), Len: n.T, Cap: n.T}
			}
		}
	case "print", "println":
		return TupleV{}
	case "recover":
		return IfaceV{"0", "0"}
	case "close":
		return TupleV{}
	case "clear":
		x.warn("clear(): havoc")
		x.havocEffects(st, x.eng.eff.callEffects(cc))
		return TupleV{}
	}
	if strings.HasPrefix(b.Name(), "ssa:wrapnilchk") {
		return args[0]
	}
	x.warn("builtin %s: havoc", b.Name())
	return x.havocVal(rt, b.Name())
}

// Raw memory (A-unsafe). Memory reached through unsafe pointer arithmetic (the payload behind a page header) is
// modelled, per scalar element type T, as ONE row of the ordinary element heap E$T, owned by the distinguished
// backing array `rawmem` and indexed by address div sizeof(T). A typed load/store through a pointer converted
// from unsafe.Pointer, unsafe.Slice(ptr, n) and every re-slicing of it therefore alias each other exactly as
// the addresses say (ptr+8k <-> index+k). Distinct objects may collide in this row (object references are not
// spaced like addresses): that is MORE aliasing than the machine has, hence sound for proofs; what is assumed is
// that such raw views do not alias struct fields or Go-allocated slices (layout K obligations fix the header size).
func (x *Exec) rawMem() string {
	x.declareFun("rawmem", "() Int")
	x.emitOnce("rawmem-neg", "(assert (< rawmem 0))")
	return "rawmem"
}

func (x *Exec) rawIndex(ptr string, et types.Type) string {
	// the address as a signed number (pointer arithmetic is done in uintptr and wraps; object references may be
	// negative for interior pointers), so that ptr+k*size <-> index+k holds across zero
	sz := x.eng.sizes.Sizeof(et)
	sg := sx("ite", sx(">=", ptr, "9223372036854775808"), sx("-", ptr, "18446744073709551616"), ptr)
	if sz <= 1 {
		return sg
	}
	return sx("div", sg, fmt.Sprint(sz))
}

func (x *Exec) appendBuiltin(fr *Frame, st *State, reach string, cc *ssa.CallCommon, args []Val, ins ssa.Instruction) Val {
	s, ok1 := args[0].(SliceV)
	var add SliceV
	switch a := args[1].(type) {
	case SliceV:
		add = a
	case Sc: // append([]byte, string...)
		if a.S != "Str" {
			return x.havocVal(cc.Args[0].Type(), "append")
		}
		x.warn("append of string: havoc")
		return x.havocVal(cc.Args[0].Type(), "append")
	default:
		ok1 = false
	}
	if !ok1 {
		return x.havocVal(cc.Args[0].Type(), "append")
	}
	et := cc.Args[0].Type().Underlying().(*types.Slice).Elem()
	newLen := x.define("aplen", "Int", sx("+", s.Len, add.Len))
	fits := x.define("apfits", "Bool", sx("<=", newLen, s.Cap))
	// result header
	narr := x.fresh("aparr", "Int")
	x.emit(fmt.Sprintf("(assert (> %s %s))", narr, st.alc))
	st.alc = narr
	ncap := x.fresh("apcap", "Int")
	x.assume("true", sx("and", sx(">=", ncap, newLen), sx("<=", ncap, "9223372036854775807")))
	x.assume(reach, sx("<=", newLen, "9223372036854775807")) // a longer slice cannot exist (append would panic: out of memory)
	res := SliceV{ite(fits, s.Arr, narr), ite(fits, s.Off, "0"), newLen, ite(fits, s.Cap, ncap)}
	res = x.nameVal("ap", res).(SliceV)
	if kindOf(et) == KStruct && flatStruct(et) {
		// struct elements live in the field heaps at eaddr$T(arr, idx): the old elements are carried over to
		// the result, the appended ones are left unconstrained (sound: their contents are simply unknown),
		// every other address keeps its value.
		x.structElemsMove(st, et, []elemMove{{res.Arr, res.Off, "0", s.Arr, s.Off, s.Len}, {res.Arr, res.Off, s.Len, add.Arr, add.Off, add.Len}}, func(a, i string) string {
			return sx("and", sx("=", a, res.Arr), sx("or", not(fits), sx("and", sx("<=", sx("+", res.Off, s.Len), i), sx("<", i, sx("+", res.Off, newLen)))))
		})
		return res
	}
	if kindOf(et) == KStruct || kindOf(et) == KArray {
		x.warn("append on []%s: element contents havoc", typeKey(et))
		x.havocStructElems(st, et)
		return res
	}
	for _, c := range x.comps(et) {
		name := "E$" + typeKey(et) + c.suffix
		h := x.heap(st, name, arr2Sort(c.sort))
		oldRow := sx("select", h, s.Arr)
		addRow := sx("select", h, add.Arr)
		row := x.fresh("aprow", "(Array Int "+c.sort+")")
		// elements: [0,len) from old (relative to result off), [len,newLen) from add
		el := x.elFn(c.sort)
		x.emit(fmt.Sprintf("(assert (forall ((i Int)) (! (=> (and (<= 0 i) (< i %s)) (= (%s %s %s i) (%s %s %s i))) :pattern ((%s %s %s i)) :pattern ((%s %s %s i)))))",
			s.Len, el, row, res.Off, el, oldRow, s.Off, el, row, res.Off, el, oldRow, s.Off))
		x.emit(fmt.Sprintf("(assert (forall ((i Int)) (! (=> (and (<= 0 i) (< i %s)) (= (%s %s %s (+ %s i)) (%s %s %s i))) :pattern ((%s %s %s i)))))",
			add.Len, el, row, res.Off, s.Len, el, addRow, add.Off, el, addRow, add.Off))
		x.emit(fmt.Sprintf("(assert (forall ((i Int)) (! (=> (and (<= %s i) (< i %s)) (= (%s %s %s i) (%s %s %s (- i %s)))) :pattern ((%s %s %s i)))))",
			s.Len, newLen, el, row, res.Off, el, addRow, add.Off, s.Len, el, row, res.Off))
		// in place: everything outside [off+len, off+newLen) unchanged
		x.emit(fmt.Sprintf("(assert (=> %s (forall ((j Int)) (! (=> (or (< j (+ %s %s)) (>= j (+ %s %s))) (= (select %s j) (select %s j))) :pattern ((select %s j))))))",
			fits, s.Off, s.Len, s.Off, newLen, row, oldRow, row))
		x.setHeap(st, name, arr2Sort(c.sort), sx("store", h, res.Arr, row))
	}
	return res
}

// flatStruct: a struct whose fields are all scalars, slices or interfaces (no nested struct / array values)
func flatStruct(t types.Type) bool {
	s, ok := t.Underlying().(*types.Struct)
	if !ok {
		return false
	}
	for i := 0; i < s.NumFields(); i++ {
		switch kindOf(s.Field(i).Type()) {
		case KStruct, KArray:
			return false
		}
	}
	return true
}

// structElemsMove rewrites the field heaps of struct type et as by a memmove of n elements from
// (srcArr, srcOff..) to (dstArr, dstOff..): moved elements take the OLD values of their sources (overlap
// safe), every address outside `written` (a formula over a = array and i = index of an element address)
// keeps its value; addresses inside `written` that are not move targets are unconstrained.
type elemMove struct{ dstArr, dstOff, dstShift, srcArr, srcOff, n string }

func (x *Exec) structElemsMove(st *State, et types.Type, moves []elemMove, written func(a, i string) string) {
	sn := et.Underlying().(*types.Struct)
	ea := "eaddr$" + typeKey(et)
	x.declEaddr(ea)
	tag := x.tagIDs[ea]
	for fi := 0; fi < sn.NumFields(); fi++ {
		f := sn.Field(fi)
		for _, c := range x.comps(f.Type()) {
			name := fieldHeap(et, f) + c.suffix
			srt := arrSort(c.sort)
			h := x.heap(st, name, srt)
			x.n++
			nh := fmt.Sprintf("%s!%d", name, x.n)
			x.declare(nh, srt)
			se := x.selemFn(ea)
			for _, m := range moves {
				// indices relative to the base offsets: dst index i in [dRel, dRel+n) takes the old value of src index i + (sRel - dRel)
				dB, dR := x.offBaseOf(m.dstOff)
				sB, sR := x.offBaseOf(m.srcOff)
				if m.dstShift != "" && m.dstShift != "0" {
					if dR == "0" {
						dR = m.dstShift
					} else {
						dR = sx("+", dR, m.dstShift)
					}
				}
				dR = x.define("mvd", "Int", dR)
				sR = x.define("mvs", "Int", sR)
				x.emit(fmt.Sprintf("(assert (forall ((i Int)) (! (=> (and (<= %s i) (< i (+ %s %s))) (= (select %s (%s %s %s i)) (select %s (%s %s %s (+ i (- %s %s)))))) :pattern ((select %s (%s %s %s i))))))",
					dR, dR, m.n, nh, se, m.dstArr, dB, h, se, m.srcArr, sB, sR, dR, nh, se, m.dstArr, dB))
				x.emit(fmt.Sprintf("(assert (forall ((j Int)) (! (=> (and (<= %s j) (< j (+ %s %s))) (= (select %s (%s %s %s (+ j (- %s %s)))) (select %s (%s %s %s j)))) :pattern ((select %s (%s %s %s j))))))",
					sR, sR, m.n, nh, se, m.dstArr, dB, dR, sR, h, se, m.srcArr, sB, h, se, m.srcArr, sB))
			}
			w := written(fmt.Sprintf("(%s$a p)", ea), fmt.Sprintf("(%s$i p)", ea))
			x.emit(fmt.Sprintf("(assert (forall ((p Int)) (! (=> (not (and (= (addrkind p) %d) %s)) (= (select %s p) (select %s p))) :pattern ((select %s p)))))", tag, w, nh, h, nh))
			st.heap[name] = nh
			if st.alc != "" {
				if x.heapAlc == nil {
					x.heapAlc = map[string]string{}
				}
				x.heapAlc[nh] = st.alc
			}
		}
	}
}

func (x *Exec) havocStructElems(st *State, et types.Type) {
	s, ok := et.Underlying().(*types.Struct)
	if !ok {
		return
	}
	for i := 0; i < s.NumFields(); i++ {
		f := s.Field(i)
		if kindOf(f.Type()) == KStruct {
			x.havocStructElems(st, f.Type())
			continue
		}
		for _, c := range x.comps(f.Type()) {
			x.havocHeapForce(st, fieldHeap(et, f)+c.suffix)
		}
	}
}

func (x *Exec) copyBuiltin(fr *Frame, st *State, reach string, cc *ssa.CallCommon, args []Val) Val {
	dst, ok1 := args[0].(SliceV)
	src, ok2 := args[1].(SliceV)
	et := cc.Args[0].Type().Underlying().(*types.Slice).Elem()
	if ok1 && ok2 && kindOf(et) == KStruct && flatStruct(et) {
		n := x.define("copyn", "Int", ite(sx("<=", dst.Len, src.Len), dst.Len, src.Len))
		x.structElemsMove(st, et, []elemMove{{dst.Arr, dst.Off, "0", src.Arr, src.Off, n}}, func(a, i string) string {
			return sx("and", sx("=", a, dst.Arr), sx("<=", dst.Off, i), sx("<", i, sx("+", dst.Off, n)))
		})
		return I(n)
	}
	if !ok1 || !ok2 || kindOf(et) == KStruct || kindOf(et) == KArray {
		if ok1 {
			x.warn("copy with unsupported operands: destination havoc")
			if kindOf(et) == KStruct {
				x.havocStructElems(st, et)
			} else {
				for _, c := range x.comps(et) {
					x.havocHeapForce(st, "E$"+typeKey(et)+c.suffix)
				}
			}
		}
		return x.havocVal(types.Typ[types.Int], "copyn")
	}
	n := x.define("copyn", "Int", ite(sx("<=", dst.Len, src.Len), dst.Len, src.Len))
	for _, c := range x.comps(et) {
		name := "E$" + typeKey(et) + c.suffix
		h := x.heap(st, name, arr2Sort(c.sort))
		srcRow := sx("select", h, src.Arr)
		dstRow := sx("select", h, dst.Arr)
		row := x.fresh("cprow", "(Array Int "+c.sort+")")
		el := x.elFn(c.sort)
		x.emit(fmt.Sprintf("(assert (forall ((i Int)) (! (=> (and (<= 0 i) (< i %s)) (= (%s %s %s i) (%s %s %s i))) :pattern ((%s %s %s i)))))",
			n, el, row, dst.Off, el, srcRow, src.Off, el, row, dst.Off))
		x.emit(fmt.Sprintf("(assert (forall ((j Int)) (! (=> (or (< j %s) (>= j (+ %s %s))) (= (select %s j) (select %s j))) :pattern ((select %s j)))))",
			dst.Off, dst.Off, n, row, dstRow, row))
		x.setHeap(st, name, arr2Sort(c.sort), sx("store", h, dst.Arr, row))
	}
	return I(n)
}

// ---------------------------------------------------------------- defers, panics

func (x *Exec) runDefers(fr *Frame, st *State, reach string) {
	ds := st.defers
	st.defers = nil
	for k := len(ds) - 1; k >= 0; k-- {
		d := ds[k]
		g := and(reach, d.guard)
		// run the call on a copy and merge back under the guard
		after := st.clone()
		cc := d.instr.Common()
		x.callWithArgs(fr, after, g, cc, d.instr, d.args, d.fnv)
		merged := x.mergeStates([]string{d.guard, "true"}, []*State{after, st})
		merged.defers = nil
		*st = *merged
	}
}

// callWithArgs executes a call whose arguments were evaluated earlier (defer).
func (x *Exec) callWithArgs(fr *Frame, st *State, reach string, cc *ssa.CallCommon, ins ssa.Instruction, args []Val, fnv Val) {
	// temporarily bind the argument values
	saved := map[ssa.Value]Val{}
	for i, a := range cc.Args {
		if old, ok := fr.vals[a]; ok {
			saved[a] = old
		}
		fr.vals[a] = args[i]
	}
	var rt types.Type = cc.Signature().Results()
	if cc.Signature().Results().Len() == 1 {
		rt = cc.Signature().Results().At(0).Type()
	}
	x.call(fr, st, reach, cc, ins, rt)
	for a, v := range saved {
		fr.vals[a] = v
	}
}

func (x *Exec) panicInstr(fr *Frame, st *State, reach string, i *ssa.Panic) {
	fr.panicsSeen++
	if !fr.top {
		// a panic inside an inlined callee is the caller's obligation as well
	}
	con := x.con
	if con != nil && len(con.Panics) > 0 {
		// allowed iff some "panics when C" holds in the pre-state
		c := x.newCtx(fr0(fr).entry, fr0(fr).entry, con.Pkg, reach, fr)
		x.bindTop(c, nil)
		var cs []string
		for _, cl := range con.Panics {
			f, err := c.formula(cl.E)
			if err != nil {
				x.fatal("%s:%d: panics when: %v", cl.File, cl.Line, err)
				continue
			}
			cs = append(cs, f)
		}
		x.oblige(x.oblName(fr, "nopanic", i.Pos(), "panic"), "nopanic", reach, or(cs...), nil, x.posText(i.Pos())+": explicit panic reachable only under the contract's 'panics when' condition")
		return
	}
	x.oblige(x.oblName(fr, "nopanic", i.Pos(), "panic"), "nopanic", reach, "false", nil, x.posText(i.Pos())+": explicit panic unreachable")
}

var topFrame *Frame

func fr0(fr *Frame) *Frame {
	if topFrame != nil {
		return topFrame
	}
	return fr
}

// bindTop binds the verified function's parameters (and results) in a context.
func (x *Exec) bindTop(c *SpecCtx, results []Val) {
	fr := topFrame
	var args []Val
	for _, p := range x.fn.Params {
		args = append(args, fr.vals[p])
	}
	x.bindSig(c, x.fn.Signature, paramNamesOf(x.fn, x.fn.Signature), args, x.con, x.fn, results)
	for _, fv := range x.fn.FreeVars {
		v := fr.vals[fv]
		// free variables are pointers to captured cells: expose the cell content under the variable's name
		if sc, ok := v.(Sc); ok && sc.Loc != nil {
			et := derefType(fv.Type())
			if et != nil && kindOf(et) != KStruct {
				c.env[fv.Name()] = envEntry{v: x.load(c.cur, sc.Loc, et), t: et, loc: sc.Loc}
				continue
			}
		}
		c.env[fv.Name()] = envEntry{v: v, t: fv.Type()}
	}
}

func callCounter(key string) string { return "G$calls$" + sanitize(key) }

// bindClosureVars exposes the captured variables of a closure (cells) under their source names.
func (x *Exec) bindClosureVars(c *SpecCtx, callee *ssa.Function, clo []Val, st *State) {
	if callee == nil || len(clo) == 0 {
		return
	}
	for i, fv := range callee.FreeVars {
		if i >= len(clo) {
			break
		}
		v := clo[i]
		if sc, ok := v.(Sc); ok && sc.Loc != nil {
			et := derefType(fv.Type())
			if et != nil && kindOf(et) != KStruct {
				c.env[fv.Name()] = envEntry{v: x.load(c.cur, sc.Loc, et), t: et, loc: sc.Loc}
				continue
			}
		}
		c.env[fv.Name()] = envEntry{v: v, t: fv.Type()}
	}
}

// assumeCallbackClauses: assumed behaviour of user callbacks (A-user), stated in the contract of the
// function being verified ("callback ensures ...").
func (x *Exec) assumeCallbackClauses(fr *Frame, st *State, reach string, ins ssa.Instruction) {
	if x.con == nil || !fr.top || topFrame == nil {
		return
	}
	for _, cl := range x.con.Callback {
		cc2 := x.newCtx(st, topFrame.entry, x.con.Pkg, reach, fr)
		x.bindFrameNames(fr, ins.Block(), cc2)
		x.bindBlockNames(fr, ins.Block(), cc2)
		f, err := cc2.formula(cl.E)
		if err != nil {
			x.fatal("%s:%d: callback ensures: %v", cl.File, cl.Line, err)
			continue
		}
		x.assume(reach, f)
		x.assumed["user callback assumed to satisfy: "+cl.Text] = true
	}
}

func argTypes(callee *ssa.Function, sig *types.Signature, recvT types.Type) []types.Type {
	var ts []types.Type
	if callee != nil {
		for _, p := range callee.Params {
			ts = append(ts, p.Type())
		}
		return ts
	}
	if recvT != nil {
		ts = append(ts, recvT)
	}
	for i := 0; i < sig.Params().Len(); i++ {
		ts = append(ts, sig.Params().At(i).Type())
	}
	return ts
}
