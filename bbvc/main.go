package main

import (
	"fmt"
	"os"
	"sort"
	"strings"
	"time"
)

func usage() {
	fmt.Fprintln(os.Stderr, `usage:
  bbvc vf <funckey> [-v] [-dump dir]     verify one function against its contract (developer aid)
  bbvc check <property> <quick|thorough>  run the registered check of a property
  bbvc replay <property> <file>           re-run a recorded replay
  bbvc list                               list contracts, obligations per property
  bbvc effects <funckey>                  show inferred effects`)
	os.Exit(2)
}

func mustEngine() *Engine {
	t0 := time.Now()
	e, err := loadEngine()
	if err != nil {
		fmt.Fprintln(os.Stderr, "engine:", err)
		os.Exit(3)
	}
	e.eff = newEffects(e)
	if err := e.loadSpecs(); err != nil {
		fmt.Fprintln(os.Stderr, "contracts:", err)
		os.Exit(3)
	}
	// register every heap the effect inference knows about once, then freeze the registry as the starting point of
	// every function verification (reproducible VCs: vf and check generate the same text for a function)
	for _, fn := range e.repoFuncs() {
		e.eff.funcEffects(fn)
	}
	e.baseHeapSorts = map[string]string{}
	for k, v := range e.heapSorts {
		e.baseHeapSorts[k] = v
	}
	if os.Getenv("BBVC_VERBOSE") != "" {
		fmt.Fprintf(os.Stderr, "engine loaded in %v\n", time.Since(t0))
	}
	return e
}

func main() {
	if len(os.Args) < 2 {
		usage()
	}
	defer cleanupScratch()
	switch os.Args[1] {
	case "vf":
		if len(os.Args) < 3 {
			usage()
		}
		e := mustEngine()
		verbose := false
		dump := ""
		var keys []string
		for i := 2; i < len(os.Args); i++ {
			switch os.Args[i] {
			case "-v":
				verbose = true
			case "-dump":
				dump = os.Args[i+1]
				i++
			case "-t":
				fmt.Sscanf(os.Args[i+1], "%d", &vfTimeout)
				i++
			default:
				keys = append(keys, os.Args[i])
			}
		}
		bad := 0
		for _, k := range keys {
			var matched []string
			for ck := range e.contracts {
				if ck == k || strings.HasSuffix(ck, "."+k) || (strings.HasSuffix(k, "*") && strings.HasPrefix(ck, strings.TrimSuffix(k, "*"))) {
					matched = append(matched, ck)
				}
			}
			sort.Strings(matched)
			if len(matched) == 0 {
				fmt.Println("no contract matches", k)
				bad++
			}
			for _, ck := range matched {
				if e.contracts[ck].Trusted || e.contracts[ck].Opaque || e.byKey[ck] == nil {
					continue
				}
				bad += vfOne(e, ck, verbose, dump)
			}
		}
		if bad > 0 {
			cleanupScratch()
			os.Exit(1)
		}
	case "effects":
		e := mustEngine()
		fn := e.byKey[os.Args[2]]
		if fn == nil {
			fmt.Println("unknown function")
			os.Exit(1)
		}
		fmt.Println(e.eff.String(fn))
	case "check":
		if len(os.Args) < 4 {
			usage()
		}
		code := runCheck(os.Args[2], os.Args[3])
		cleanupScratch()
		os.Exit(code)
	case "replay":
		if len(os.Args) < 4 {
			usage()
		}
		code := runReplayCmd(os.Args[2], os.Args[3])
		cleanupScratch()
		os.Exit(code)
	case "list":
		e := mustEngine()
		listAll(e)
	default:
		usage()
	}
}

var vfTimeout = 10

func vfOne(e *Engine, key string, verbose bool, dump string) int {
	t0 := time.Now()
	res, err := e.verifyFunction(key)
	if err != nil {
		fmt.Println("ERROR", key, err)
		return 1
	}
	results := dischargeAll(res.Obls, vfTimeout)
	bad := 0
	for _, o := range res.Obls {
		r := results[o]
		mark := "ok  "
		if r.Status != "proved" {
			mark = "FAIL"
			bad++
		}
		if verbose || r.Status != "proved" {
			fmt.Printf("  %s %-70s %-8s %-10s %5dms %s\n", mark, o.Name, r.Status, r.Solver, r.Ms, r.Rung)
			if r.Status != "proved" {
				fmt.Printf("       %s\n", o.Text)
				if verbose {
					fmt.Println(indent(firstLines(r.Model, 60), "       | "))
				}
			}
		}
		if dump != "" {
			os.MkdirAll(dump, 0o755)
			os.WriteFile(dump+"/"+sanitize(o.Name)+".smt2", []byte(o.smt(o.Formula, true)), 0o644)
		}
	}
	for _, w := range res.Fatals {
		fmt.Println("  FATAL:", w)
		bad++
	}
	if verbose {
		for _, w := range uniq(res.Warnings) {
			fmt.Println("  warn:", w)
		}
		for _, a := range res.Assumed {
			fmt.Println("  assumed:", a)
		}
		for _, a := range res.Skipped {
			fmt.Println("  skipped:", a)
		}
	}
	fmt.Printf("%s: %d obligations, %d not discharged, %v\n", key, len(res.Obls), bad, time.Since(t0).Round(time.Millisecond))
	return bad
}

func indent(s, p string) string {
	return p + strings.ReplaceAll(s, "\n", "\n"+p)
}
