package main

import (
	"fmt"
	"go/types"
	"sort"
	"strings"

	"golang.org/x/tools/go/ssa"
)

// ---------------------------------------------------------------- loops

// names visible at a loop header: header phis by source name, parameters, dominating named values
func (x *Exec) loopEnv(fr *Frame, li *loopInfo, c *SpecCtx, phiVal func(*ssa.Phi) Val) {
	x.bindFrameNames(fr, li.header, c)
	for _, ins := range li.header.Instrs {
		phi, ok := ins.(*ssa.Phi)
		if !ok {
			break
		}
		if phi.Comment != "" {
			c.env[phi.Comment] = envEntry{v: phiVal(phi), t: phi.Type()}
		}
		c.env[phi.Name()] = envEntry{v: phiVal(phi), t: phi.Type()}
	}
}

// bindFrameNames binds parameters and source-level variable names whose defining value dominates block b.
func (x *Exec) bindFrameNames(fr *Frame, b *ssa.BasicBlock, c *SpecCtx) {
	fn := fr.fn
	type cand struct {
		v     ssa.Value
		addr  bool
		block *ssa.BasicBlock
		idx   int
	}
	best := map[string]cand{}
	better := func(a, old cand) bool {
		if old.v == nil {
			return true
		}
		if a.block == old.block {
			return a.idx > old.idx
		}
		return old.block.Dominates(a.block)
	}
	for _, blk := range fn.Blocks {
		if !(blk.Dominates(b)) {
			continue
		}
		for idx, ins := range blk.Instrs {
			if blk == b {
				// only phis of b itself are visible at the header (handled by loopEnv)
				break
			}
			switch i := ins.(type) {
			case *ssa.Phi:
				if i.Comment != "" {
					cd := cand{v: i, block: blk, idx: idx}
					if better(cd, best[i.Comment]) {
						best[i.Comment] = cd
					}
				}
			case *ssa.Alloc:
				if i.Comment != "" && i.Comment != "complit" && !strings.Contains(i.Comment, " ") {
					cd := cand{v: i, addr: true, block: blk, idx: idx}
					if better(cd, best[i.Comment]) {
						best[i.Comment] = cd
					}
				}
			case *ssa.DebugRef:
				if id, ok := i.Expr.(interface{ String() string }); ok {
					_ = id
				}
				if i.IsAddr {
					continue
				}
				if obj := i.Object(); obj != nil {
					if _, isVar := obj.(*types.Var); isVar {
						cd := cand{v: i.X, block: blk, idx: idx}
						if better(cd, best[obj.Name()]) {
							best[obj.Name()] = cd
						}
					}
				}
			}
		}
	}
	for name, cd := range best {
		v, ok := fr.vals[cd.v]
		if !ok {
			if _, isConst := cd.v.(*ssa.Const); isConst {
				v = x.value(fr, cd.v)
			} else {
				continue
			}
		}
		if cd.addr {
			sc, ok := v.(Sc)
			et := derefType(cd.v.Type())
			if !ok || et == nil {
				continue
			}
			if kindOf(et) == KStruct {
				c.env[name] = envEntry{v: AddrV{sc.T}, t: et}
			} else if sc.Loc != nil {
				c.env[name] = envEntry{v: x.load(c.cur, sc.Loc, et), t: et, loc: sc.Loc}
			}
			continue
		}
		c.env[name] = envEntry{v: v, t: cd.v.Type()}
	}
	// parameters last: a parameter that was never reassigned keeps its name
	for _, p := range fn.Params {
		if _, shadow := c.env[p.Name()]; !shadow {
			c.env[p.Name()] = envEntry{v: fr.vals[p], t: p.Type()}
		}
	}
	for _, fv := range fn.FreeVars {
		if _, shadow := c.env[fv.Name()]; shadow {
			continue
		}
		v := fr.vals[fv]
		if sc, ok := v.(Sc); ok && sc.Loc != nil {
			et := derefType(fv.Type())
			if et != nil && kindOf(et) != KStruct {
				c.env[fv.Name()] = envEntry{v: x.load(c.cur, sc.Loc, et), t: et, loc: sc.Loc}
				continue
			}
		}
		c.env[fv.Name()] = envEntry{v: v, t: fv.Type()}
	}
}

// bindBlockNames adds names defined by DebugRefs inside block b itself (before its terminator).
func (x *Exec) bindBlockNames(fr *Frame, b *ssa.BasicBlock, c *SpecCtx) {
	for _, ins := range b.Instrs {
		switch i := ins.(type) {
		case *ssa.Phi:
			if i.Comment != "" {
				if v, ok := fr.vals[i]; ok {
					c.env[i.Comment] = envEntry{v: v, t: i.Type()}
				}
			}
		case *ssa.DebugRef:
			if i.IsAddr {
				continue
			}
			if obj := i.Object(); obj != nil {
				if _, isVar := obj.(*types.Var); isVar {
					if v, ok := fr.vals[i.X]; ok {
						c.env[obj.Name()] = envEntry{v: v, t: i.X.Type()}
					} else if _, isConst := i.X.(*ssa.Const); isConst {
						c.env[obj.Name()] = envEntry{v: x.value(fr, i.X), t: i.X.Type()}
					}
				}
			}
		}
	}
}

func (x *Exec) loopClauses(fr *Frame, li *loopInfo) (inv, dec []*Clause) {
	if fr.con == nil {
		return nil, nil
	}
	for _, cl := range fr.con.Loops[li.ordinal] {
		if cl.Kind == "invariant" {
			inv = append(inv, cl)
		} else {
			dec = append(dec, cl)
		}
	}
	return
}

func (x *Exec) loopHeader(fr *Frame, li *loopInfo, st *State, reach string) {
	inv, dec := x.loopClauses(fr, li)
	if fr.con == nil || !fr.top {
		x.fatal("loop in a function body executed without contract (%s)", funcKey(fr.fn))
	}
	if len(inv) == 0 && fr.top {
		x.warn("%s: loop %d has no invariant (only the automatic frame is known after it)", funcKey(fr.fn), li.ordinal)
	}
	// 1. invariant holds on entry
	entryVals := map[*ssa.Phi]Val{}
	for _, ins := range li.header.Instrs {
		if phi, ok := ins.(*ssa.Phi); ok {
			entryVals[phi] = fr.vals[phi]
		} else {
			break
		}
	}
	li.entryState = st.clone()
	c := x.newCtx(st, fr.entry, fr.con.Pkg, reach, fr)
	c.lentry = li.entryState
	x.loopEnv(fr, li, c, func(p *ssa.Phi) Val { return entryVals[p] })
	for k, cl := range inv {
		f, err := c.formula(cl.E)
		if err != nil {
			x.dropClause(cl, err)
			continue
		}
		lbl := cl.Label
		if lbl == "" {
			lbl = fmt.Sprint(k)
		}
		x.oblige(fmt.Sprintf("%s/inv.entry/loop%d.%s", funcKey(x.fn), li.ordinal, lbl), "inv.entry", reach, f, cl, "loop invariant holds on entry: "+cl.Text)
	}
	// 2. havoc loop targets
	writes := x.eng.eff.loopWrites(fr.fn, li)
	var names []string
	for n := range writes {
		names = append(names, n)
	}
	sort.Strings(names)
	for _, n := range names {
		if n == "*" {
			x.applyMods(st, []modLoc{{heap: "*nonghost", whole: true}})
			continue
		}
		x.havocHeapForce(st, n)
	}
	na := x.fresh("alc", "Int")
	x.emit(fmt.Sprintf("(assert (>= %s %s))", na, st.alc))
	st.alc = na
	for _, ins := range li.header.Instrs {
		phi, ok := ins.(*ssa.Phi)
		if !ok {
			break
		}
		nv := x.havocVal(phi.Type(), fr.tag+phi.Name()+".h")
		if old, ok := entryVals[phi].(Sc); ok && old.Loc != nil {
			x.warn("loop-carried pointer %s with location: location dropped", phi.Name())
		}
		if kindOf(phi.Type()) == KPtr {
			if s, ok := nv.(Sc); ok {
				x.assume(reach, sx("<=", s.T, st.alc))
			}
		}
		fr.vals[phi] = nv
	}
	// automatic frame invariant: what the function's modifies clause forbids to change stays unchanged
	// across iterations (checked on every back edge as inv.preserve/autoframe)
	if x.hasMods && fr.top {
		for _, n := range names {
			if f := x.frameFormula(n, st.heap[n], fr.entry); f != "" {
				x.assume(reach, f)
			}
		}
		li.frameHeaps = names
	}
	// range-index phis (for i := range s) start at -1 and only ever increase by one: "rangeindex >= -1"
	// is an automatic invariant (its entry/preservation obligations are generated like any other)
	for _, ins := range li.header.Instrs {
		phi, ok := ins.(*ssa.Phi)
		if !ok {
			break
		}
		if phi.Comment == "rangeindex" {
			if ev, ok := entryVals[phi].(Sc); ok {
				x.oblige(fmt.Sprintf("%s/inv.entry/loop%d.autorange", funcKey(x.fn), li.ordinal), "inv.entry", reach, sx("and", sx(">=", ev.T, "(- 1)"), sx("<", ev.T, "9223372036854775807")), nil, "automatic invariant: -1 <= range index < MaxInt on entry")
			}
			x.assume(reach, sx("and", sx(">=", fr.vals[phi].(Sc).T, "(- 1)"), sx("<", fr.vals[phi].(Sc).T, "9223372036854775807")))
		}
	}
	// 3. assume invariant for an arbitrary iteration
	c2 := x.newCtx(st, fr.entry, fr.con.Pkg, reach, fr)
	c2.lentry = li.entryState
	x.loopEnv(fr, li, c2, func(p *ssa.Phi) Val { return fr.vals[p] })
	for _, cl := range inv {
		f, err := c2.formula(cl.E)
		if err != nil {
			continue
		}
		x.assume(reach, f)
	}
	li.varTerm = nil
	for _, cl := range dec {
		v, _, err := c2.term(cl.E)
		if err != nil {
			x.fatal("%s:%d: decreases: %v", cl.File, cl.Line, err)
			continue
		}
		li.varTerm = append(li.varTerm, x.define("variant", "Int", v.(Sc).T))
	}
}

// dropClause: a loop-invariant clause that cannot be translated on the current code (it names a variable that no
// longer exists) is dropped with a warning; the obligations that needed it then fail on their own.
func (x *Exec) dropClause(cl *Clause, err error) {
	x.warn("%s:%d: loop invariant dropped, it cannot be evaluated on the current code: %v", cl.File, cl.Line, err)
	x.assumed[fmt.Sprintf("DROPPED loop invariant [%s] %s: %v", cl.Label, cl.Text, err)] = true
}

func (x *Exec) loopBackEdge(fr *Frame, li *loopInfo, from *ssa.BasicBlock, cond string, st *State) {
	inv, dec := x.loopClauses(fr, li)
	idx := predIndex(li.header, from)
	c := x.newCtx(st, fr.entry, fr.con.Pkg, cond, fr)
	c.lentry = li.entryState
	x.loopEnv(fr, li, c, func(p *ssa.Phi) Val { return x.value(fr, p.Edges[idx]) })
	for k, cl := range inv {
		f, err := c.formula(cl.E)
		if err != nil {
			continue // already reported at the loop entry (dropClause)
		}
		lbl := cl.Label
		if lbl == "" {
			lbl = fmt.Sprint(k)
		}
		x.oblige(fmt.Sprintf("%s/inv.preserve/loop%d.%s", funcKey(x.fn), li.ordinal, lbl), "inv.preserve", cond, f, cl, "loop invariant preserved: "+cl.Text)
	}
	for _, ins := range li.header.Instrs {
		phi, ok := ins.(*ssa.Phi)
		if !ok {
			break
		}
		if phi.Comment == "rangeindex" {
			if bv, ok := x.value(fr, phi.Edges[idx]).(Sc); ok {
				x.oblige(fmt.Sprintf("%s/inv.preserve/loop%d.autorange", funcKey(x.fn), li.ordinal), "inv.preserve", cond, sx("and", sx(">=", bv.T, "(- 1)"), sx("<", bv.T, "9223372036854775807")), nil, "automatic invariant: -1 <= range index < MaxInt preserved")
			}
		}
	}
	if x.hasMods && fr.top {
		for _, n := range li.frameHeaps {
			cur, ok := st.heap[n]
			if !ok {
				continue
			}
			if f := x.frameFormula(n, cur, fr.entry); f != "" {
				x.oblige(fmt.Sprintf("%s/inv.preserve/loop%d.autoframe.%s", funcKey(x.fn), li.ordinal, n), "inv.preserve", cond, f, nil, "automatic frame invariant: only locations listed in modifies change in "+n)
			}
		}
	}
	for k, cl := range dec {
		if k >= len(li.varTerm) {
			continue
		}
		v, _, err := c.term(cl.E)
		if err != nil {
			x.fatal("%s:%d: decreases: %v", cl.File, cl.Line, err)
			continue
		}
		x.oblige(fmt.Sprintf("%s/decreases/loop%d", funcKey(x.fn), li.ordinal), "decreases", cond,
			sx("and", sx("<=", "0", li.varTerm[k]), sx("<", v.(Sc).T, li.varTerm[k])), cl, "loop variant decreases and is bounded below: "+cl.Text)
	}
}

// ---------------------------------------------------------------- verifying one function against its contract

type FuncResult struct {
	Key      string
	Obls     []*Obl
	Warnings []string
	Fatals   []string
	Assumed  []string
	Trusted  []string
	Skipped  []string
	Exec     *Exec
}

func (e *Engine) verifyFunction(key string) (*FuncResult, error) {
	con := e.contracts[key]
	if con == nil {
		return nil, fmt.Errorf("no contract for %s", key)
	}
	fn := e.byKey[key]
	if fn == nil {
		return nil, fmt.Errorf("function %s not found in the current tree", key)
	}
	if fn.Blocks == nil {
		return nil, fmt.Errorf("function %s has no body", key)
	}
	if e.baseHeapSorts != nil {
		e.heapSorts = map[string]string{}
		for k, v := range e.baseHeapSorts {
			e.heapSorts[k] = v
		}
	}
	x := newExec(e, fn, con)
	x.curBlk = 0
	x.anc = ancestors(fn)
	res := &FuncResult{Key: key, Exec: x}
	st := &State{heap: map[string]string{}}
	x.declare("alc!0", "Int")
	x.emit("(assert (>= alc!0 0))")
	st.alc = "alc!0"
	// axioms
	// parameters
	var params []Val
	for _, p := range fn.Params {
		v := x.havocVal(p.Type(), "p."+p.Name())
		if kindOf(p.Type()) == KPtr {
			if s, ok := v.(Sc); ok {
				x.assume("true", sx("and", sx("<=", "0", s.T), sx("<=", s.T, "alc!0")))
			}
		}
		if sv, ok := v.(SliceV); ok {
			x.assume("true", sx("and", sx("<=", "0", sv.Arr), sx("<=", sv.Arr, "alc!0")))
		}
		params = append(params, v)
	}
	var free []Val
	for _, fv := range fn.FreeVars {
		v := x.havocVal(fv.Type(), "fv."+fv.Name())
		if s, ok := v.(Sc); ok {
			et := derefType(fv.Type())
			if et != nil && kindOf(et) != KStruct {
				// captured variable cell: the heap of the allocation site in the parent
				s.Loc = &Loc{Kind: LCell, Base: e.eff.freeVarHeap(fn, fv), Ref: s.T}
				v = s
			}
		}
		free = append(free, v)
	}
	fr := &Frame{fn: fn, vals: map[ssa.Value]Val{}, entry: st.clone()}
	for i, p := range fn.Params {
		fr.vals[p] = params[i]
	}
	for i, fv := range fn.FreeVars {
		fr.vals[fv] = free[i]
	}
	topFrame = fr
	// requires
	c := x.newCtx(st, st, con.Pkg, "true", fr)
	x.bindTop(c, nil)
	for _, ax := range e.axioms {
		ac := x.newCtx(st, st, ax.Pkg, "true", nil)
		f, err := ac.formula(ax.E)
		if err != nil {
			x.fatal("axiom %s: %v", ax.Name, err)
			continue
		}
		x.assume("true", f)
	}
	for _, cl := range con.Requires {
		f, err := c.formula(cl.E)
		if err != nil {
			x.fatal("%s:%d: requires: %v", cl.File, cl.Line, err)
			continue
		}
		x.assume("true", f)
	}
	// frame description from the modifies clauses (evaluated in the entry state)
	if mods, has, err := x.modTargets(c, con); err != nil {
		x.fatal("%v", err)
	} else if has {
		x.topMods = mods
		x.hasMods = true
	}
	for _, inv := range con.Invokes {
		x.heap(st, "G$invoked$"+inv, "Bool")
		x.setHeap(st, "G$invoked$"+inv, "Bool", "false")
	}
	// vacuity: the precondition must be satisfiable
	x.obls = append(x.obls, &Obl{Name: key + "/vacuity/requires", Kind: "vacuity", Fn: key, Formula: "false", Prefix: len(x.items), Text: "preconditions are satisfiable (expected: sat)", x: x})
	entry := st.clone()
	body := x.runBody(fn, params, free, st, "true", true, con, 0, "")
	body.entry = entry
	topFrame = body
	// postconditions per return
	sort.SliceStable(body.rets, func(i, j int) bool { return body.rets[i].instr.Pos() < body.rets[j].instr.Pos() })
	for ri, r := range body.rets {
		x.curBlk = r.instr.Block().Index
		var rv []Val
		rv = append(rv, r.vals...)
		pc := x.newCtx(r.st, entry, con.Pkg, r.guard, body)
		// local names that dominate the return are visible in ensures clauses (values at the return); parameters
		// and results, bound last, keep precedence
		x.bindFrameNames(body, r.instr.Block(), pc)
		x.bindBlockNames(body, r.instr.Block(), pc)
		x.bindTop(pc, rv)
		for k, cl := range con.Ensures {
			pc.pol = 1
			pc.wit = nil
			if w := con.Witness[cl.Label]; w != nil && cl.Label != "" {
				pc.wit = w
				wc := x.newCtx(r.st, entry, con.Pkg, r.guard, body)
				x.bindFrameNames(body, r.instr.Block(), wc)
				x.bindBlockNames(body, r.instr.Block(), wc)
				pc.witEnv = wc.env
			}
			f, err := pc.formula(cl.E)
			lbl := cl.Label
			if lbl == "" {
				lbl = fmt.Sprint(k)
			}
			if err != nil {
				// the postcondition cannot be evaluated on the current code (a name it mentions is gone): it is
				// reported as a failed obligation with the reason, not silently skipped
				x.oblige(fmt.Sprintf("%s/post/%s@ret%d", key, lbl, ri), "post", r.guard, "false", cl, fmt.Sprintf("%s: ensures %s  [cannot be evaluated on the current code: %v]", x.posText(r.instr.Pos()), cl.Text, err))
				continue
			}
			x.oblige(fmt.Sprintf("%s/post/%s@ret%d", key, lbl, ri), "post", r.guard, f, cl, fmt.Sprintf("%s: ensures %s", x.posText(r.instr.Pos()), cl.Text))
		}
		for k, cl := range con.Exits {
			pc.pol = 1
			pc.wit = nil
			f, err := pc.formula(cl.E)
			lbl := cl.Label
			if lbl == "" {
				lbl = fmt.Sprint(k)
			}
			if err != nil {
				x.oblige(fmt.Sprintf("%s/exit/%s@ret%d", key, lbl, ri), "post", r.guard, "false", cl, fmt.Sprintf("%s: exit %s  [cannot be evaluated on the current code: %v]", x.posText(r.instr.Pos()), cl.Text, err))
				continue
			}
			x.oblige(fmt.Sprintf("%s/exit/%s@ret%d", key, lbl, ri), "post", r.guard, f, cl, fmt.Sprintf("%s: exit %s", x.posText(r.instr.Pos()), cl.Text))
		}
		if !con.NoFrame {
			x.frameObligations(body, r, ri, entry, con, pc)
		}
		// vacuity guard: the return must be reachable under the assumptions collected on the way (contradictory
		// callee contracts, invariants or engine axioms would otherwise make every obligation behind them pass)
		x.obls = append(x.obls, &Obl{Name: fmt.Sprintf("%s/vacuity/ret%d", key, ri), Kind: "vacuity", Fn: key, Formula: not(r.guard), Prefix: len(x.items), Text: fmt.Sprintf("%s: this return is reachable (expected: sat)", x.posText(r.instr.Pos())), x: x, Blk: x.curBlk})
	}
	if len(body.rets) == 0 {
		x.warn("function has no reachable return")
	}
	// loop clauses must name loops that exist (a clause for a missing loop would silently be ignored)
	for ord := range con.Loops {
		if ord >= len(body.loops) {
			x.fatal("contract has clauses for loop %d but the function has only %d loop(s) (loops without a back edge, e.g. a range whose body always returns or panics, are not loops)", ord, len(body.loops))
		}
	}
	for _, o := range x.obls {
		skipped := false
		for _, sk := range con.Skips {
			// "=name": exactly the obligation <function>/<name> (never keyed by source line: harmless edits move lines)
			if strings.HasPrefix(sk.Pattern, "=") {
				if o.Name != key+"/"+sk.Pattern[1:] {
					continue
				}
			} else if !(strings.Contains(o.Name, sk.Pattern) || strings.Contains(o.Text, sk.Pattern)) {
				continue
			}
			{
				res.Skipped = append(res.Skipped, fmt.Sprintf("%s (%s): not claimed because %s", o.Name, o.Text, sk.Reason))
				skipped = true
				break
			}
		}
		if !skipped {
			res.Obls = append(res.Obls, o)
		}
	}
	res.Warnings = x.warnings
	res.Fatals = x.fatals
	for k := range x.assumed {
		res.Assumed = append(res.Assumed, k)
	}
	sort.Strings(res.Assumed)
	for k := range x.trustedUsed {
		res.Trusted = append(res.Trusted, k)
	}
	sort.Strings(res.Trusted)
	topFrame = nil
	return res, nil
}

// frameObligations: every heap the body changed must be covered by the modifies clause.
func (x *Exec) frameObligations(fr *Frame, r retRec, ri int, entry *State, con *Contract, pc *SpecCtx) {
	mods, has, err := x.modTargets(pc, con)
	if err != nil {
		x.fatal("%v", err)
		return
	}
	if !has {
		return // no modifies clause: callers use the inferred effects, which over-approximate by construction
	}
	x.topMods = mods
	x.hasMods = true
	whole := map[string]bool{}
	byHeap := map[string][]string{}
	everything, nonghost := false, false
	for _, m := range mods {
		switch {
		case m.heap == "*":
			everything = true
		case m.heap == "*nonghost":
			nonghost = true
		case m.whole:
			whole[m.heap] = true
		default:
			byHeap[m.heap] = append(byHeap[m.heap], m.ref)
		}
		_ = byHeap
	}
	if everything {
		return
	}
	var names []string
	for n := range r.st.heap {
		names = append(names, n)
	}
	sort.Strings(names)
	for _, n := range names {
		if n == "*" {
			if !nonghost {
				x.oblige(fmt.Sprintf("%s/frame/everything@ret%d", funcKey(x.fn), ri), "frame", r.guard, "false", nil, "body havocs all state (callback / unknown call) but modifies clause is narrower")
			}
			continue
		}
		if strings.HasPrefix(n, "IT$") || strings.HasPrefix(n, "G$calls$") || strings.HasPrefix(n, "G$sent") || n == "G$recvtotal" || strings.HasPrefix(n, "A$"+sanitize(funcKey(x.fn))+"$") {
			continue // function-local cells, engine-managed call counters
		}
		if nonghost && !isGhostHeap(n, x.eng) {
			continue
		}
		final := r.st.heap[n]
		init := n + "!0"
		if final == init || whole[n] {
			continue
		}
		if strings.HasPrefix(final, "?") {
			x.oblige(fmt.Sprintf("%s/frame/%s@ret%d", funcKey(x.fn), n, ri), "frame", r.guard, "false", nil, "heap "+n+" is havoced by the body but not listed in modifies")
			continue
		}
		f := x.frameFormula(n, final, entry)
		if f == "" {
			continue
		}
		x.oblige(fmt.Sprintf("%s/frame/%s@ret%d", funcKey(x.fn), n, ri), "frame", r.guard, f, nil, "only locations listed in modifies change in "+n)
	}
}

// ancestors: for every block B the set of blocks that can reach B in the DAG without back edges (B included).
func ancestors(fn *ssa.Function) map[int]map[int]bool {
	out := map[int]map[int]bool{}
	for _, b := range topoOrder(fn) {
		s := map[int]bool{b.Index: true}
		for _, p := range b.Preds {
			if backEdge(p, b) {
				continue
			}
			for k := range out[p.Index] {
				s[k] = true
			}
		}
		out[b.Index] = s
	}
	return out
}

// frameFormula: "heap n (current version cur) differs from its initial version only at locations the
// modifies clause lists, or at objects allocated after entry". "" if unconstrained (whole-heap modifies).
func (x *Exec) frameFormula(n, cur string, entry *State) string {
	if n == "*" || strings.HasPrefix(n, "IT$") || strings.HasPrefix(n, "G$calls$") || strings.HasPrefix(n, "G$sent") || n == "G$recvtotal" || strings.HasPrefix(n, "A$"+sanitize(funcKey(x.fn))+"$") {
		return ""
	}
	if strings.HasPrefix(cur, "?") {
		return ""
	}
	var exc []string
	var windows []modLoc
	for _, m := range x.topMods {
		if m.heap == "*" {
			return ""
		}
		if m.heap == "*nonghost" && !isGhostHeap(n, x.eng) {
			return ""
		}
		if m.heap != n {
			continue
		}
		if m.whole {
			return ""
		}
		exc = append(exc, sx("=", "p$f", m.ref))
		if m.lo != "" {
			windows = append(windows, m)
		}
	}
	srt, ok := x.eng.heapSorts[n]
	if !ok {
		return ""
	}
	init := n + "!0"
	x.declare(init, srt)
	if cur == init {
		return ""
	}
	if !strings.HasPrefix(srt, "(Array Int") {
		return sx("=", cur, init)
	}
	cond := sx("and", sx("<=", "p$f", entry.alc), not(or(exc...)))
	if strings.HasPrefix(n, "E$") || strings.HasPrefix(n, "M$") {
		nonneg := sx(">=", "p$f", "0")
		if x.declared["rawmem"] {
			nonneg = sx("or", nonneg, sx("=", "p$f", "rawmem")) // raw memory is framed like any other array
		}
		cond = sx("and", sx("<=", "p$f", entry.alc), nonneg, not(or(exc...)))
	} else {
		x.declRoot()
		cond = sx("and", sx("<=", sx("root", "p$f"), entry.alc), not(or(exc...)))
	}
	f := fmt.Sprintf("(forall ((p$f Int)) (! (=> %s (= (select %s p$f) (select %s p$f))) :pattern ((select %s p$f))))", cond, cur, init, cur)
	// windowed rows: outside every window listed for the row nothing changes
	for _, w := range windows {
		var outside []string
		for _, w2 := range windows {
			if w2.ref == w.ref || true {
				outside = append(outside, sx("or", not(sx("=", w2.ref, w.ref)), not(sx("and", sx("<=", w2.lo, "i$f"), sx("<", "i$f", w2.hi)))))
			}
		}
		f = sx("and", f, fmt.Sprintf("(forall ((i$f Int)) (! (=> %s (= (select (select %s %s) i$f) (select (select %s %s) i$f))) :pattern ((select (select %s %s) i$f))))", and(outside...), cur, w.ref, init, w.ref, cur, w.ref))
	}
	return f
}

// root(p): the allocated object an address belongs to (p itself for plain references)
func (x *Exec) declRoot() {
	if x.declared["root"] {
		return
	}
	x.declareFun("root", "(Int) Int")
	x.emitGlobal("(assert (forall ((p Int)) (! (=> (>= p 0) (= (root p) p)) :pattern ((root p)))))")
}
