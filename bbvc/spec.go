package main

// Contract language: lexer, parser and contract-file reader.
//
// Contract files are comment-only Go files (build tag verif); every line that
// matters starts with "//@".  See DESIGN.md §3.2.

import (
	"fmt"
	"os"
	"strconv"
	"strings"
	"unicode"
)

// ---------------------------------------------------------------- AST

type Expr interface{}

type EIdent struct{ Name string }
type EInt struct{ V string }
type EBool struct{ V bool }
type EStr struct{ V string }
type ENil struct{}
type EUn struct {
	Op string
	X  Expr
}
type EBin struct {
	Op   string
	L, R Expr
}
type ECall struct {
	Fun  string
	Args []Expr
}
type ESel struct {
	X    Expr
	Name string
}
type EIdx struct{ X, I Expr }
type ESlice struct{ X, Lo, Hi Expr }
type QVar struct {
	Name string
	Type string // textual type, e.g. "int", "common.Pgid", "*txPending"
}
type EQuant struct {
	All  bool
	Vars []QVar
	Body Expr
	Trig [][]Expr // optional explicit trigger sets: forall x T {e1, e2} {e3} :: body
}
type ECond struct{ C, A, B Expr }
type ELet struct {
	Name string
	Val  Expr
	Body Expr
}

// ---------------------------------------------------------------- contracts

type Clause struct {
	Kind  string // requires ensures modifies invariant decreases panics assert
	Label string // optional [label]
	Loop  int    // for loop clauses
	Text  string
	E     Expr
	Mods  []Expr // for modifies
	File  string
	Line  int
}

type Contract struct {
	Key      string // normalised function key, e.g. "bbolt.(*DB).mmapSize"
	Pkg      string // package name of the contract file
	Results  []string
	Requires []*Clause
	Ensures  []*Clause
	Exits    []*Clause // "exit [label] E": proved at every return like a postcondition, with the function's locals visible; NOT part of what callers may assume
	Modifies []*Clause
	Loops    map[int][]*Clause // invariant / decreases per loop ordinal
	Panics   []*Clause         // "never" or "when E"
	Trusted  bool              // assumed, never verified
	Inline   bool              // callers inline the body instead of using the contract
	NoFrame  bool              // do not generate frame obligations
	GoJoin   string            // "gojoin because R": goroutines spawned by the function are joined before it uses their effects (it ranges over a channel the goroutine closes): a go statement is executed as a call at the spawn point (assumption, listed)
	Props    []string          // properties this contract serves
	Witness  map[string]map[string]Expr // clause label -> bound variable -> witness expression
	Skips    []SkipClause
	ParamNames []string // names for the parameters of function-typed fields / unnamed signatures
	Invokes  []string  // function-typed parameters the function calls at most once (higher-order protocol)
	Callback []*Clause // assumed after every dynamic (user callback) call inside the function (A-user)
	CallSites map[string][]*Clause // callsite KEY requires EXPR: checked at every call of KEY made by this function (callee parameters are named a_<param>)
	CallbackProvides []*Clause // "callback provides E": what the function guarantees about the arguments (cbarg0, cbarg1, ...) and the state at every invocation of a parameter listed under 'invokes'
	CallbackPure []string // function-typed parameters whose calls are assumed to have no side effects (A-user; listed in the evidence)
	File     string
	Line     int
	HasPanicsNever bool
	Opaque   bool // body not verified but not "trusted" either (havoc-abstracted); used for A+B layer
}

// SkipClause: an obligation that is generated but explicitly not claimed (listed as an assumption).
type SkipClause struct {
	Pattern string
	Reason  string
}

type PureFunc struct {
	Name   string
	Params []QVar
	Ret    string
	Body   Expr
	Pkg    string
	Uninterp bool // declared without body: uninterpreted function
}

type GhostDecl struct {
	Kind  string // "var" or "field"
	Owner string // struct type for fields
	Name  string
	Type  string
	Pkg   string
}

type Lemma struct {
	Name  string
	Props []string
	Hyps  []*Clause
	Concl []*Clause
	Vars  []QVar
	Pkg   string
	File  string
	Line  int
}

type Axiom struct {
	Name string
	E    Expr
	Text string
	Pkg  string
}

type SpecFile struct {
	Pkg       string
	PkgPath   string
	Contracts []*Contract
	Pures     []*PureFunc
	Ghosts    []*GhostDecl
	Lemmas    []*Lemma
	Axioms    []*Axiom
	KObls     []*KObl
	FObls     []*FObl
	Guarded   []*GuardDecl
}

// KObl is a layout/constant obligation (back end consteval).
type KObl struct {
	Name  string
	Props []string
	Text  string // e.g. sizeof(common.Page) == 16
	Pkg   string
	File  string
	Line  int
}

// FObl is an effect / call-graph obligation (back end effects).
type FObl struct {
	Name  string
	Props []string
	Text  string
	Pkg   string
	File  string
	Line  int
}

type GuardDecl struct {
	Field string
	Lock  string
	Pkg   string
}

// ---------------------------------------------------------------- lexer

type tok struct {
	k string // id int str op eof
	s string
}

func lex(src string) ([]tok, error) {
	var out []tok
	i := 0
	for i < len(src) {
		c := src[i]
		switch {
		case c == ' ' || c == '\t' || c == '\n' || c == '\r':
			i++
		case unicode.IsLetter(rune(c)) || c == '_' || c == '$':
			j := i
			for j < len(src) && (unicode.IsLetter(rune(src[j])) || unicode.IsDigit(rune(src[j])) || src[j] == '_' || src[j] == '$') {
				j++
			}
			out = append(out, tok{"id", src[i:j]})
			i = j
		case unicode.IsDigit(rune(c)):
			j := i
			if strings.HasPrefix(src[i:], "0x") || strings.HasPrefix(src[i:], "0X") {
				j += 2
				for j < len(src) && (unicode.IsDigit(rune(src[j])) || strings.ContainsRune("abcdefABCDEF_", rune(src[j]))) {
					j++
				}
			} else {
				for j < len(src) && (unicode.IsDigit(rune(src[j])) || src[j] == '_') {
					j++
				}
			}
			out = append(out, tok{"int", strings.ReplaceAll(src[i:j], "_", "")})
			i = j
		case c == '"':
			j := i + 1
			for j < len(src) && src[j] != '"' {
				if src[j] == '\\' {
					j++
				}
				j++
			}
			if j >= len(src) {
				return nil, fmt.Errorf("unterminated string")
			}
			s, err := strconv.Unquote(src[i : j+1])
			if err != nil {
				return nil, err
			}
			out = append(out, tok{"str", s})
			i = j + 1
		default:
			ops := []string{"<==>", "==>", "::", ":=", "==", "!=", "<=", ">=", "&&", "||", "<<", ">>", "&^"}
			matched := false
			for _, o := range ops {
				if strings.HasPrefix(src[i:], o) {
					out = append(out, tok{"op", o})
					i += len(o)
					matched = true
					break
				}
			}
			if matched {
				continue
			}
			if strings.ContainsRune("+-*/%<>!()[]{},.:?&|^=", rune(c)) {
				out = append(out, tok{"op", string(c)})
				i++
				continue
			}
			return nil, fmt.Errorf("bad character %q in %q", c, src)
		}
	}
	out = append(out, tok{"eof", ""})
	return out, nil
}

// ---------------------------------------------------------------- parser

type parser struct {
	t   []tok
	p   int
	src string
}

func (p *parser) peek() tok { return p.t[p.p] }
func (p *parser) next() tok { t := p.t[p.p]; p.p++; return t }
func (p *parser) isOp(s string) bool {
	return p.t[p.p].k == "op" && p.t[p.p].s == s
}
func (p *parser) isID(s string) bool {
	return p.t[p.p].k == "id" && p.t[p.p].s == s
}
func (p *parser) expectOp(s string) {
	if !p.isOp(s) {
		panic(fmt.Sprintf("expected %q, got %q in %q", s, p.t[p.p].s, p.src))
	}
	p.p++
}

func parseExpr(src string) (e Expr, err error) {
	defer func() {
		if r := recover(); r != nil {
			err = fmt.Errorf("%v", r)
		}
	}()
	t, err := lex(src)
	if err != nil {
		return nil, err
	}
	p := &parser{t: t, src: src}
	e = p.expr()
	if p.peek().k != "eof" {
		panic(fmt.Sprintf("trailing tokens at %q in %q", p.peek().s, src))
	}
	return e, nil
}

func parseExprList(src string) (es []Expr, err error) {
	defer func() {
		if r := recover(); r != nil {
			err = fmt.Errorf("%v", r)
		}
	}()
	t, err := lex(src)
	if err != nil {
		return nil, err
	}
	p := &parser{t: t, src: src}
	for {
		es = append(es, p.expr())
		if p.isOp(",") {
			p.next()
			continue
		}
		break
	}
	if p.peek().k != "eof" {
		panic(fmt.Sprintf("trailing tokens at %q in %q", p.peek().s, src))
	}
	return es, nil
}

func (p *parser) typeText() string {
	s := ""
	for p.isOp("*") || p.isOp("[") {
		if p.isOp("[") {
			p.next()
			p.expectOp("]")
			s += "[]"
		} else {
			p.next()
			s += "*"
		}
	}
	if p.peek().k != "id" {
		panic("type expected in " + p.src)
	}
	s += p.next().s
	if p.isOp(".") {
		p.next()
		s += "." + p.next().s
	}
	return s
}

func (p *parser) expr() Expr {
	if p.isID("forall") || p.isID("exists") {
		all := p.next().s == "forall"
		var vs []QVar
		for {
			var names []string
			names = append(names, p.next().s)
			for p.isOp(",") {
				p.next()
				names = append(names, p.next().s)
			}
			ty := p.typeText()
			for _, n := range names {
				vs = append(vs, QVar{n, ty})
			}
			if p.isOp(",") {
				p.next()
				continue
			}
			break
		}
		var trig [][]Expr
		for p.isOp("{") {
			p.next()
			var set []Expr
			for {
				set = append(set, p.expr())
				if p.isOp(",") {
					p.next()
					continue
				}
				break
			}
			p.expectOp("}")
			trig = append(trig, set)
		}
		p.expectOp("::")
		body := p.expr()
		return &EQuant{all, vs, body, trig}
	}
	if p.isID("let") {
		p.next()
		n := p.next().s
		p.expectOp(":=")
		v := p.expr()
		if !p.isID("in") {
			panic("let: expected 'in' in " + p.src)
		}
		p.next()
		b := p.expr()
		return &ELet{n, v, b}
	}
	c := p.iff()
	if p.isOp("?") {
		p.next()
		a := p.expr()
		p.expectOp(":")
		b := p.expr()
		return &ECond{c, a, b}
	}
	return c
}

func (p *parser) iff() Expr {
	l := p.implies()
	for p.isOp("<==>") {
		p.next()
		r := p.implies()
		l = &EBin{"<==>", l, r}
	}
	return l
}

func (p *parser) implies() Expr {
	l := p.or()
	if p.isOp("==>") {
		p.next()
		var r Expr
		if p.isID("forall") || p.isID("exists") || p.isID("let") {
			r = p.expr()
		} else {
			r = p.implies()
		}
		return &EBin{"==>", l, r}
	}
	return l
}

func (p *parser) or() Expr {
	l := p.and()
	for p.isOp("||") {
		p.next()
		l = &EBin{"||", l, p.and()}
	}
	return l
}

func (p *parser) and() Expr {
	l := p.cmp()
	for p.isOp("&&") {
		p.next()
		var r Expr
		if p.isID("forall") || p.isID("exists") {
			r = p.expr()
		} else {
			r = p.cmp()
		}
		l = &EBin{"&&", l, r}
	}
	return l
}

func (p *parser) cmp() Expr {
	l := p.add()
	for {
		if p.peek().k == "op" {
			switch p.peek().s {
			case "==", "!=", "<", "<=", ">", ">=":
				op := p.next().s
				r := p.add()
				l = &EBin{op, l, r}
				continue
			}
		}
		break
	}
	return l
}

func (p *parser) add() Expr {
	l := p.mul()
	for p.isOp("+") || p.isOp("-") || p.isOp("|") {
		op := p.next().s
		l = &EBin{op, l, p.mul()}
	}
	return l
}

func (p *parser) mul() Expr {
	l := p.unary()
	for p.isOp("*") || p.isOp("/") || p.isOp("%") || p.isOp("&") || p.isOp("<<") || p.isOp(">>") {
		op := p.next().s
		l = &EBin{op, l, p.unary()}
	}
	return l
}

func (p *parser) unary() Expr {
	if p.isOp("!") {
		p.next()
		return &EUn{"!", p.unary()}
	}
	if p.isOp("-") {
		p.next()
		return &EUn{"-", p.unary()}
	}
	return p.postfix()
}

func (p *parser) postfix() Expr {
	e := p.primary()
	for {
		switch {
		case p.isOp("."):
			p.next()
			e = &ESel{e, p.next().s}
		case p.isOp("["):
			p.next()
			if p.isOp(":") {
				p.next()
				hi := p.expr()
				p.expectOp("]")
				e = &ESlice{e, nil, hi}
				continue
			}
			i := p.expr()
			if p.isOp(":") {
				p.next()
				var hi Expr
				if !p.isOp("]") {
					hi = p.expr()
				}
				p.expectOp("]")
				e = &ESlice{e, i, hi}
				continue
			}
			p.expectOp("]")
			e = &EIdx{e, i}
		case p.isOp("("):
			// call: only on identifiers or pkg.ident
			name := ""
			switch f := e.(type) {
			case *EIdent:
				name = f.Name
			case *ESel:
				if id, ok := f.X.(*EIdent); ok {
					name = id.Name + "." + f.Name
				}
			}
			if name == "" {
				panic("call of non-identifier in " + p.src)
			}
			p.next()
			var args []Expr
			for !p.isOp(")") {
				args = append(args, p.expr())
				if p.isOp(",") {
					p.next()
				}
			}
			p.expectOp(")")
			e = &ECall{name, args}
		default:
			return e
		}
	}
}

func (p *parser) primary() Expr {
	t := p.next()
	switch t.k {
	case "int":
		return &EInt{t.s}
	case "str":
		return &EStr{t.s}
	case "id":
		switch t.s {
		case "true":
			return &EBool{true}
		case "false":
			return &EBool{false}
		case "nil":
			return &ENil{}
		}
		return &EIdent{t.s}
	case "op":
		if t.s == "(" {
			e := p.expr()
			p.expectOp(")")
			return e
		}
	}
	panic(fmt.Sprintf("unexpected token %q in %q", t.s, p.src))
}

// ---------------------------------------------------------------- file reader

var clauseKeywords = map[string]bool{
	"func": true, "pure": true, "ghost": true, "requires": true, "ensures": true,
	"modifies": true, "loop": true, "panics": true, "trusted": true, "lemma": true,
	"axiom": true, "inline": true, "returns": true, "props": true, "noframe": true, "gojoin": true, "exit": true,
	"K": true, "F": true, "guarded": true, "hyp": true, "concl": true, "vars": true,
	"opaque": true, "uninterp": true, "witness": true, "skip": true, "callback": true, "invokes": true, "params": true, "callsite": true,
}

type rawLine struct {
	text string
	line int
}

func readSpecFile(path string) (*SpecFile, error) {
	data, err := os.ReadFile(path)
	if err != nil {
		return nil, err
	}
	sf := &SpecFile{}
	var lines []rawLine
	for i, l := range strings.Split(string(data), "\n") {
		tl := strings.TrimSpace(l)
		if strings.HasPrefix(tl, "package ") && sf.Pkg == "" {
			sf.Pkg = strings.TrimSpace(strings.TrimPrefix(tl, "package "))
			continue
		}
		if !strings.HasPrefix(tl, "//@") {
			continue
		}
		body := strings.TrimSpace(strings.TrimPrefix(tl, "//@"))
		if body == "" || strings.HasPrefix(body, "--") {
			continue
		}
		// strip trailing comments introduced by " -- "
		if k := strings.Index(body, " -- "); k >= 0 {
			body = strings.TrimSpace(body[:k])
		}
		first := body
		if k := strings.IndexAny(body, " \t(["); k >= 0 {
			first = body[:k]
		}
		if clauseKeywords[first] || len(lines) == 0 {
			lines = append(lines, rawLine{body, i + 1})
		} else {
			lines[len(lines)-1].text += " " + body
		}
	}
	var cur *Contract
	var curLemma *Lemma
	fail := func(rl rawLine, f string, a ...interface{}) error {
		return fmt.Errorf("%s:%d: %s", path, rl.line, fmt.Sprintf(f, a...))
	}
	parseLabel := func(s string) (label, rest string) {
		s = strings.TrimSpace(s)
		if strings.HasPrefix(s, "[") {
			if k := strings.Index(s, "]"); k > 0 {
				return s[1:k], strings.TrimSpace(s[k+1:])
			}
		}
		return "", s
	}
	for _, rl := range lines {
		kw, rest := rl.text, ""
		if k := strings.IndexAny(rl.text, " \t"); k >= 0 {
			kw, rest = rl.text[:k], strings.TrimSpace(rl.text[k+1:])
		}
		mk := func(kind string, text string) (*Clause, error) {
			label, body := parseLabel(text)
			c := &Clause{Kind: kind, Label: label, Text: body, File: path, Line: rl.line}
			if kind == "modifies" {
				if strings.TrimSpace(body) == "nothing" {
					return c, nil
				}
				es, err := parseExprList(body)
				if err != nil {
					return nil, fail(rl, "%v", err)
				}
				c.Mods = es
				return c, nil
			}
			e, err := parseExpr(body)
			if err != nil {
				return nil, fail(rl, "%v", err)
			}
			c.E = e
			return c, nil
		}
		switch kw {
		case "func":
			cur = &Contract{Key: normKey(sf.Pkg, rest), Pkg: sf.Pkg, Loops: map[int][]*Clause{}, File: path, Line: rl.line}
			curLemma = nil
			sf.Contracts = append(sf.Contracts, cur)
		case "returns":
			if cur == nil {
				return nil, fail(rl, "returns outside func")
			}
			r := strings.Trim(rest, "() ")
			for _, n := range strings.Split(r, ",") {
				cur.Results = append(cur.Results, strings.TrimSpace(n))
			}
		case "props":
			ps := strings.Fields(strings.ReplaceAll(rest, ",", " "))
			if curLemma != nil {
				curLemma.Props = ps
			} else if cur != nil {
				cur.Props = ps
			} else {
				return nil, fail(rl, "props outside func/lemma")
			}
		case "trusted":
			if cur == nil {
				return nil, fail(rl, "trusted outside func")
			}
			cur.Trusted = true
		case "opaque":
			if cur == nil {
				return nil, fail(rl, "opaque outside func")
			}
			cur.Opaque = true
		case "inline":
			if cur == nil {
				return nil, fail(rl, "inline outside func")
			}
			cur.Inline = true
		case "noframe":
			if cur == nil {
				return nil, fail(rl, "noframe outside func")
			}
			cur.NoFrame = true
		case "gojoin":
			if cur == nil || !strings.HasPrefix(rest, "because ") {
				return nil, fail(rl, "gojoin because <reason> (inside a func block)")
			}
			cur.GoJoin = strings.TrimPrefix(rest, "because ")
		case "requires", "ensures", "modifies", "exit":
			if cur == nil {
				return nil, fail(rl, "%s outside func", kw)
			}
			c, err := mk(kw, rest)
			if err != nil {
				return nil, err
			}
			switch kw {
			case "exit":
				cur.Exits = append(cur.Exits, c)
			case "requires":
				cur.Requires = append(cur.Requires, c)
			case "ensures":
				cur.Ensures = append(cur.Ensures, c)
			case "modifies":
				cur.Modifies = append(cur.Modifies, c)
			}
		case "params":
			if cur == nil {
				return nil, fail(rl, "params outside func")
			}
			for _, n := range strings.Split(strings.Trim(rest, "() "), ",") {
				cur.ParamNames = append(cur.ParamNames, strings.TrimSpace(n))
			}
		case "invokes":
			if cur == nil {
				return nil, fail(rl, "invokes outside func")
			}
			cur.Invokes = append(cur.Invokes, strings.Fields(strings.ReplaceAll(rest, ",", " "))...)
		case "callsite":
			if cur == nil {
				return nil, fail(rl, "callsite outside func")
			}
			k := strings.Index(rest, " requires ")
			if k < 0 {
				return nil, fail(rl, "callsite KEY requires EXPR")
			}
			c, err := mk("callsite", rest[k+len(" requires "):])
			if err != nil {
				return nil, err
			}
			if cur.CallSites == nil {
				cur.CallSites = map[string][]*Clause{}
			}
			ck := strings.Trim(strings.TrimSpace(rest[:k]), "\"")
			cur.CallSites[ck] = append(cur.CallSites[ck], c)
		case "callback":
			if cur == nil {
				return nil, fail(rl, "callback outside func")
			}
			if strings.HasPrefix(rest, "pure ") {
				cur.CallbackPure = append(cur.CallbackPure, strings.Fields(strings.TrimPrefix(rest, "pure "))...)
				continue
			}
			if strings.HasPrefix(rest, "provides ") {
				c, err := mk("callbackprovides", strings.TrimPrefix(rest, "provides "))
				if err != nil {
					return nil, err
				}
				cur.CallbackProvides = append(cur.CallbackProvides, c)
				continue
			}
			if !strings.HasPrefix(rest, "ensures ") {
				return nil, fail(rl, "callback ensures EXPR | callback provides EXPR | callback pure PARAM")
			}
			c, err := mk("callback", strings.TrimPrefix(rest, "ensures "))
			if err != nil {
				return nil, err
			}
			cur.Callback = append(cur.Callback, c)
		case "skip":
			if cur == nil {
				return nil, fail(rl, "skip outside func")
			}
			f := strings.SplitN(rest, " because ", 2)
			if len(f) != 2 {
				return nil, fail(rl, "skip <obligation-substring> because <reason>")
			}
			cur.Skips = append(cur.Skips, SkipClause{strings.TrimSpace(f[0]), strings.TrimSpace(f[1])})
		case "witness":
			if cur == nil {
				return nil, fail(rl, "witness outside func")
			}
			label, body := parseLabel(rest)
			k := strings.Index(body, ":=")
			if label == "" || k < 0 {
				return nil, fail(rl, "witness [label] var := expr")
			}
			e, err := parseExpr(body[k+2:])
			if err != nil {
				return nil, fail(rl, "%v", err)
			}
			if cur.Witness == nil {
				cur.Witness = map[string]map[string]Expr{}
			}
			if cur.Witness[label] == nil {
				cur.Witness[label] = map[string]Expr{}
			}
			cur.Witness[label][strings.TrimSpace(body[:k])] = e
		case "panics":
			if cur == nil {
				return nil, fail(rl, "panics outside func")
			}
			if rest == "never" {
				cur.HasPanicsNever = true
				continue
			}
			if !strings.HasPrefix(rest, "when ") {
				return nil, fail(rl, "panics: expected 'never' or 'when E'")
			}
			c, err := mk("panics", strings.TrimPrefix(rest, "when "))
			if err != nil {
				return nil, err
			}
			cur.Panics = append(cur.Panics, c)
		case "loop":
			if cur == nil {
				return nil, fail(rl, "loop outside func")
			}
			f := strings.Fields(rest)
			if len(f) < 3 {
				return nil, fail(rl, "loop N invariant|decreases E")
			}
			n, err := strconv.Atoi(f[0])
			if err != nil {
				return nil, fail(rl, "loop ordinal: %v", err)
			}
			kind := f[1]
			if kind != "invariant" && kind != "decreases" {
				return nil, fail(rl, "loop: bad kind %s", kind)
			}
			body := strings.TrimSpace(rest[strings.Index(rest, kind)+len(kind):])
			c, err := mk(kind, body)
			if err != nil {
				return nil, err
			}
			c.Loop = n
			cur.Loops[n] = append(cur.Loops[n], c)
		case "pure", "uninterp":
			pf, err := parsePure(sf.Pkg, rest, kw == "uninterp")
			if err != nil {
				return nil, fail(rl, "%v", err)
			}
			sf.Pures = append(sf.Pures, pf)
		case "ghost":
			f := strings.Fields(rest)
			if len(f) == 3 && f[0] == "var" {
				sf.Ghosts = append(sf.Ghosts, &GhostDecl{Kind: "var", Name: f[1], Type: f[2], Pkg: sf.Pkg})
			} else if len(f) == 3 && f[0] == "field" {
				k := strings.LastIndex(f[1], ".")
				if k < 0 {
					return nil, fail(rl, "ghost field Type.name type")
				}
				sf.Ghosts = append(sf.Ghosts, &GhostDecl{Kind: "field", Owner: f[1][:k], Name: f[1][k+1:], Type: f[2], Pkg: sf.Pkg})
			} else {
				return nil, fail(rl, "ghost var name type | ghost field T.name type")
			}
		case "lemma":
			curLemma = &Lemma{Name: strings.TrimSuffix(rest, ":"), Pkg: sf.Pkg, File: path, Line: rl.line}
			cur = nil
			sf.Lemmas = append(sf.Lemmas, curLemma)
		case "vars":
			if curLemma == nil {
				return nil, fail(rl, "vars outside lemma")
			}
			for _, part := range strings.Split(rest, ",") {
				f := strings.Fields(part)
				if len(f) != 2 {
					return nil, fail(rl, "vars: name type, ...")
				}
				curLemma.Vars = append(curLemma.Vars, QVar{f[0], f[1]})
			}
		case "hyp", "concl":
			if curLemma == nil {
				return nil, fail(rl, "%s outside lemma", kw)
			}
			c, err := mk(kw, rest)
			if err != nil {
				return nil, err
			}
			if kw == "hyp" {
				curLemma.Hyps = append(curLemma.Hyps, c)
			} else {
				curLemma.Concl = append(curLemma.Concl, c)
			}
		case "axiom":
			label, body := parseLabel(rest)
			e, err := parseExpr(body)
			if err != nil {
				return nil, fail(rl, "%v", err)
			}
			sf.Axioms = append(sf.Axioms, &Axiom{Name: label, E: e, Text: body, Pkg: sf.Pkg})
		case "K", "F":
			// K [name] props C12 : text
			label, body := parseLabel(rest)
			var props []string
			if strings.HasPrefix(body, "props ") {
				k := strings.Index(body, ":")
				if k < 0 {
					return nil, fail(rl, "%s: props ... : text", kw)
				}
				props = strings.Fields(strings.ReplaceAll(body[6:k], ",", " "))
				body = strings.TrimSpace(body[k+1:])
			}
			if kw == "K" {
				sf.KObls = append(sf.KObls, &KObl{Name: label, Props: props, Text: body, Pkg: sf.Pkg, File: path, Line: rl.line})
			} else {
				sf.FObls = append(sf.FObls, &FObl{Name: label, Props: props, Text: body, Pkg: sf.Pkg, File: path, Line: rl.line})
			}
		case "guarded":
			f := strings.Fields(rest)
			if len(f) != 3 || f[1] != "by" {
				return nil, fail(rl, "guarded T.f by lockexpr")
			}
			sf.Guarded = append(sf.Guarded, &GuardDecl{Field: f[0], Lock: f[2], Pkg: sf.Pkg})
		default:
			return nil, fail(rl, "unknown keyword %q", kw)
		}
	}
	return sf, nil
}

// normKey turns "(*DB).mmapSize", "(db *DB) mmapSize(...)", "sync.(*Mutex).Lock",
// "growHelper" into a canonical key "pkg.(*T).name" / "pkg.T.name" / "pkg.name".
func normKey(pkg, s string) string {
	s = strings.TrimSpace(s)
	// drop parameter list if present: keep up to the first '(' that follows the name
	// forms: "(*T).m", "T.m", "pkg.(*T).m", "pkg.T.m", "name", "pkg.name", "(*T).m$1"
	if k := strings.Index(s, " "); k >= 0 {
		s = s[:k]
	}
	if strings.HasPrefix(s, "(") || !strings.Contains(s, ".") {
		return pkg + "." + s
	}
	// has a dot: either T.m (local type) or pkg.X
	first := s[:strings.Index(s, ".")]
	if first != "" && unicode.IsUpper(rune(first[0])) {
		return pkg + "." + s
	}
	// lower-case first component: could be a local unexported type (e.g. array.Allocate)
	// or a package (sync.(*Mutex).Lock). The loader disambiguates; mark with '?'.
	return "?" + pkg + "|" + s
}

func parsePure(pkg, rest string, uninterp bool) (*PureFunc, error) {
	// func name(a T, b T) R = body
	rest = strings.TrimSpace(rest)
	if !strings.HasPrefix(rest, "func ") {
		return nil, fmt.Errorf("pure func ...")
	}
	rest = strings.TrimSpace(rest[5:])
	op := strings.Index(rest, "(")
	cp := strings.Index(rest, ")")
	if op < 0 || cp < op {
		return nil, fmt.Errorf("pure func: bad parameter list")
	}
	pf := &PureFunc{Name: strings.TrimSpace(rest[:op]), Pkg: pkg, Uninterp: uninterp}
	ps := strings.TrimSpace(rest[op+1 : cp])
	if ps != "" {
		var pending []string
		for _, part := range strings.Split(ps, ",") {
			f := strings.Fields(part)
			if len(f) == 1 {
				pending = append(pending, f[0])
				continue
			}
			if len(f) != 2 {
				return nil, fmt.Errorf("pure func: bad parameter %q", part)
			}
			for _, n := range pending {
				pf.Params = append(pf.Params, QVar{n, f[1]})
			}
			pending = nil
			pf.Params = append(pf.Params, QVar{f[0], f[1]})
		}
	}
	tail := strings.TrimSpace(rest[cp+1:])
	if uninterp {
		pf.Ret = tail
		return pf, nil
	}
	eq := strings.Index(tail, "=")
	if eq < 0 {
		return nil, fmt.Errorf("pure func: missing '='")
	}
	pf.Ret = strings.TrimSpace(tail[:eq])
	e, err := parseExpr(tail[eq+1:])
	if err != nil {
		return nil, err
	}
	pf.Body = e
	return pf, nil
}
