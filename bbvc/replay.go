package main

// Replay of refutations on the real code: a generated in-package Go test is run with
// `go test -overlay` (nothing is written into /repo).

import (
	"bytes"
	"encoding/json"
	"fmt"
	"os"
	"os/exec"
	"path/filepath"
	"regexp"
	"strings"
	"time"
)

// replay templates are registered per function key
type replayTemplate func(e *Engine, f failure, model map[string]string) (testSrc string, pkgDir string, note string)

var replayTemplates = map[string]replayTemplate{}

var modelRe = regexp.MustCompile(`\(define-fun (\S+) \(\) (Int|Bool)\s+([^\n]+)\)\n`)

func parseModel(s string) map[string]string {
	m := map[string]string{}
	for _, mm := range modelRe.FindAllStringSubmatch(s, -1) {
		v := strings.TrimSpace(mm[3])
		if strings.HasPrefix(v, "(- ") {
			v = "-" + strings.TrimSuffix(strings.TrimPrefix(v, "(- "), ")")
		}
		m[mm[1]] = v
	}
	return m
}

func tryReplay(e *Engine, prop string, f failure, rp *Replay) {
	tmpl := replayTemplates[f.rec.Function]
	if tmpl == nil {
		tmpl = propReplay[prop]
	}
	if tmpl == nil {
		return
	}
	model := parseModel(f.model)
	src, dir, note := tmpl(e, f, model)
	rp.Note = note
	if src == "" {
		return
	}
	rp.ReplayTest = src
	rp.ReplayKind = dir
	out, failed := runOverlayTest(src, dir)
	rp.ReplayOutput = firstLines(out, 80)
	rp.ReplayCmd = "bbvc replay " + prop + " <this file>"
	rp.FailingInputFound = failed
}

// per-property scenario replays (used when no function-specific template exists): a scenario test from
// /verif/replay_templates is run on the real code; with no model-derived parameters it performs the
// small-scope search described in the template.
type scenario struct {
	file   string
	pkgDir string
}

var propScenario = map[string][]scenario{
	"C18": {{"c18_maxsize_test.go", "."}},
	"C19": {{"c19_check_corrupt_test.go", "."}},
}

var propReplay = map[string]replayTemplate{}

func init() {
	for prop, scs := range propScenario {
		scs := scs
		propReplay[prop] = func(e *Engine, f failure, model map[string]string) (string, string, string) {
			for _, sc := range scs {
				data, err := os.ReadFile(filepath.Join("/verif/replay_templates", sc.file))
				if err != nil {
					continue
				}
				return string(data), sc.pkgDir, "scenario template " + sc.file + " (small-scope search on the real code)"
			}
			return "", "", ""
		}
	}
}

// runOverlayTest runs an in-package test (package dir relative to /repo) through an overlay.
// Returns output and whether the test FAILED (i.e. the violation was reproduced on the real code).
func runOverlayTest(src, pkgDir string) (string, bool) {
	dir, err := os.MkdirTemp("", "bbvc-replay")
	if err != nil {
		return err.Error(), false
	}
	defer os.RemoveAll(dir)
	testFile := filepath.Join(dir, "zz_bbvc_replay_test.go")
	os.WriteFile(testFile, []byte(src), 0o644)
	target := filepath.Join(repoDir, pkgDir, "zz_bbvc_replay_test.go")
	ov := map[string]map[string]string{"Replace": {target: testFile}}
	data, _ := json.Marshal(ov)
	ovFile := filepath.Join(dir, "ov.json")
	os.WriteFile(ovFile, data, 0o644)
	cmd := exec.Command("go", "test", "-overlay", ovFile, "-vet=off", "-count=1", "-timeout", "120s", "-run", "^TestZZBbvcReplay", "./"+pkgDir)
	cmd.Dir = repoDir
	cmd.Env = append(os.Environ(), "GOFLAGS=-mod=mod", "GOPROXY=off", "GOSUMDB=off", "GOTOOLCHAIN=local")
	var buf bytes.Buffer
	cmd.Stdout = &buf
	cmd.Stderr = &buf
	t0 := time.Now()
	err = cmd.Run()
	out := buf.String() + fmt.Sprintf("\n(replay took %v)", time.Since(t0).Round(time.Millisecond))
	if err == nil {
		return out, false
	}
	// build failures are not reproductions
	if strings.Contains(out, "[build failed]") || strings.Contains(out, "[setup failed]") {
		return out, false
	}
	return out, strings.Contains(out, "--- FAIL") || strings.Contains(out, "panic:") || strings.Contains(out, "FAIL")
}

// runBounded runs the property's scenario templates as bounded stand-ins on the real code. They are
// labelled bounded, never counted as discharged. Returns records and the scenarios that failed.
func runBounded(e *Engine, prop, tier string, seed int, force bool) ([]map[string]interface{}, []map[string]interface{}) {
	if tier != "thorough" && !force {
		return nil, nil
	}
	var recs, failed []map[string]interface{}
	for _, sc := range propScenario[prop] {
		data, err := os.ReadFile(filepath.Join("/verif/replay_templates", sc.file))
		if err != nil {
			continue
		}
		t0 := time.Now()
		out, bad := runOverlayTest(string(data), sc.pkgDir)
		rec := map[string]interface{}{
			"contract": "scenario " + sc.file,
			"bound":    "small-scope enumeration described in the template (bounded stand-in, not a proof)",
			"failed":   bad,
			"wall_s":   time.Since(t0).Seconds(),
		}
		if bad {
			rec["output"] = firstLines(out, 60)
			rec["source"] = string(data)
			rec["pkg"] = sc.pkgDir
			failed = append(failed, rec)
		}
		recs = append(recs, rec)
	}
	return recs, failed
}
