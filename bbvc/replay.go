package main

// Replay of refutations on the real code: a generated in-package Go test is run with
// `go test -overlay` (nothing is written into /repo).

import (
	"bytes"
	"encoding/json"
	"fmt"
	"os"
	"os/exec"
	"path/filepath"
	"regexp"
	"strings"
	"time"
)

// replay templates are registered per function key
type replayTemplate func(e *Engine, f failure, model map[string]string) (testSrc string, pkgDir string, note string)

var replayTemplates = map[string]replayTemplate{}

var modelRe = regexp.MustCompile(`\(define-fun (\S+) \(\) (Int|Bool)\s+([^\n]+)\)\n`)

func parseModel(s string) map[string]string {
	m := map[string]string{}
	for _, mm := range modelRe.FindAllStringSubmatch(s, -1) {
		v := strings.TrimSpace(mm[3])
		if strings.HasPrefix(v, "(- ") {
			v = "-" + strings.TrimSuffix(strings.TrimPrefix(v, "(- "), ")")
		}
		m[mm[1]] = v
	}
	return m
}

func tryReplay(e *Engine, prop string, f failure, rp *Replay) {
	tmpl := replayTemplates[f.rec.Function]
	if tmpl == nil {
		tmpl = propReplay[prop]
	}
	if tmpl == nil {
		return
	}
	model := parseModel(f.model)
	src, dir, note := tmpl(e, f, model)
	rp.Note = note
	if src == "" {
		return
	}
	rp.ReplayTest = src
	rp.ReplayKind = dir
	out, failed := runOverlayTest(src, dir)
	rp.ReplayOutput = firstLines(out, 80)
	rp.ReplayCmd = "bbvc replay " + prop + " <this file>"
	rp.FailingInputFound = failed
}

// per-property scenario replays (used when no function-specific template exists): a scenario test from
// /verif/replay_templates is run on the real code; with no model-derived parameters it performs the
// small-scope search described in the template.
type scenario struct {
	file   string
	pkgDir string
	// standsFor names the functions whose contracts are assumed (opaque) in the deductive part and for
	// which this bounded run on the real code stands in.
	standsFor string
}

const treeFns = "node.put/del/read/write/split/spill/rebalance/free, Bucket.spill/rebalance/free/inlineable/write/node, Cursor.search*/seek/node, DB.freepages, the freelist back ends behind freelist.Interface (A-tree, A-cow)"

var modelPrograms = scenario{"zz_model_program_test.go", ".", treeFns}

var propScenario = map[string][]scenario{
	"C02": {{"c02_reader_txid0_test.go", ".", "regression scenario of the fixed defect D7 (reader at txid 0)"}, modelPrograms},
	"C09": {{"c02_reader_txid0_test.go", ".", "regression scenario of the fixed defect D7 (reader at txid 0)"}, modelPrograms},
	"C04": {{"c04_bucket_program_test.go", ".", "Bucket.MoveBucket/DeleteBucket (regression scenarios of D4, D5a, D5b)"}, modelPrograms},
	"C05": {{"c05_cursor_shape_test.go", ".", "Cursor.first/last/next/prevElem/search* over trees with leaves emptied in the same transaction (regression scenario of D2)"}, modelPrograms},
	"C07": {{"c04_bucket_program_test.go", ".", "Bucket.DeleteBucket/free (regression scenario of D4)"}, modelPrograms},
	"C08": {{"c08_failed_sync_test.go", ".", "Tx.Commit / Tx.rollback after a failed final fdatasync (known finding D3)"}},
	"C10": {modelPrograms},
	"C11": {{"c11_meta_damage_test.go", ".", "DB.mmap validation tail, Open error paths, page-size probes at every supported page size (bounded: 6 page sizes x 3 damage variants x 2 meta pages)"}},
	"C12": {{"c12_freelist_page_test.go", "internal/freelist", "shared.Write/Read, Page.FreelistPageCount/FreelistPageIds (unsafe views): bytes against an independent v2 encoder, 8 list sizes incl. the 0xFFFF convention, both back ends"}},
	"C13": {modelPrograms},
	"C14": {modelPrograms},
	"C15": {modelPrograms},
	"C18": {{"c18_maxsize_test.go", ".", "DB.mmap tail, Tx.Commit growth path"}},
	"C19": {{"c19_check_corrupt_test.go", ".", "Tx.check / recursivelyCheckPages traversal"}},
	"C20": {modelPrograms},
}

// propAsserts: which assertion groups of the model-program stand-in belong to a property (BBVC_PROP)
var propAsserts = map[string]string{
	"C13": "C13,C04,C07", // content and accounting must not depend on freelist type / NoFreelistSync / reopen path
	"C20": "C20,C04,C07", // the free-list scan (DB.freepages) is exercised by the NoFreelistSync programs and reopen
}


var propReplay = map[string]replayTemplate{}

func init() {
	for prop, scs := range propScenario {
		scs := scs
		propReplay[prop] = func(e *Engine, f failure, model map[string]string) (string, string, string) {
			for _, sc := range scs {
				data, err := os.ReadFile(filepath.Join("/verif/replay_templates", sc.file))
				if err != nil {
					continue
				}
				return string(data), sc.pkgDir, "scenario template " + sc.file + " (small-scope search on the real code)"
			}
			return "", "", ""
		}
	}
}

// runOverlayTest runs an in-package test (package dir relative to /repo) through an overlay.
// Returns output and whether the test FAILED (i.e. the violation was reproduced on the real code).
func runOverlayTest(src, pkgDir string, extraEnv ...string) (string, bool) {
	dir, err := os.MkdirTemp("", "bbvc-replay")
	if err != nil {
		return err.Error(), false
	}
	defer os.RemoveAll(dir)
	testFile := filepath.Join(dir, "zz_bbvc_replay_test.go")
	os.WriteFile(testFile, []byte(src), 0o644)
	target := filepath.Join(repoDir, pkgDir, "zz_bbvc_replay_test.go")
	ov := map[string]map[string]string{"Replace": {target: testFile}}
	data, _ := json.Marshal(ov)
	ovFile := filepath.Join(dir, "ov.json")
	os.WriteFile(ovFile, data, 0o644)
	cmd := exec.Command("go", "test", "-overlay", ovFile, "-vet=off", "-count=1", "-timeout", scenarioTimeout, "-v", "-run", "^TestZZBbvcReplay", "./"+pkgDir)
	cmd.Dir = repoDir
	cmd.Env = append(os.Environ(), "GOFLAGS=-mod=mod", "GOPROXY=off", "GOSUMDB=off", "GOTOOLCHAIN=local")
	cmd.Env = append(cmd.Env, extraEnv...)
	var buf bytes.Buffer
	cmd.Stdout = &buf
	cmd.Stderr = &buf
	t0 := time.Now()
	err = cmd.Run()
	out := buf.String() + fmt.Sprintf("\n(replay took %v)", time.Since(t0).Round(time.Millisecond))
	if err == nil {
		return out, false
	}
	// build failures are not reproductions
	if strings.Contains(out, "[build failed]") || strings.Contains(out, "[setup failed]") {
		return out, false
	}
	return out, strings.Contains(out, "--- FAIL") || strings.Contains(out, "panic:") || strings.Contains(out, "FAIL")
}

// runBounded runs the property's scenario templates as bounded stand-ins on the real code. They are
// labelled bounded, never counted as discharged. Returns records and the scenarios that failed.
// scenarioTimeout bounds one scenario run (a hang is reported as a failure of the scenario)
var scenarioTimeout = "240s"

func runBounded(e *Engine, prop, tier string, seed int, force bool) ([]map[string]interface{}, []map[string]interface{}) {
	var recs, failed []map[string]interface{}
	programs, ops := 150, 80
	if tier == "thorough" {
		programs, ops = 4000, 120
		scenarioTimeout = "2400s"
	}
	for _, sc := range propScenario[prop] {
		data, err := os.ReadFile(filepath.Join("/verif/replay_templates", sc.file))
		if err != nil {
			continue
		}
		t0 := time.Now()
		bp := prop
		if a, ok := propAsserts[prop]; ok {
			bp = a
		}
		out, bad := runOverlayTest(string(data), sc.pkgDir, "BBVC_PROP="+bp, fmt.Sprint("BBVC_PROGRAMS=", programs), fmt.Sprint("BBVC_OPS=", ops), fmt.Sprint("VERIF_SEED=", seed))
		bound := "the fixed scenarios / small-scope enumeration described in the template"
		if sc.file == modelPrograms.file {
			bound = fmt.Sprintf("%d seeded random API programs x %d operations (seed %d), page size 4096, <=3 concurrent readers, both freelist back ends", programs, ops, seed)
		}
		ran := 0
		for _, l := range strings.Split(out, "\n") {
			if strings.HasPrefix(strings.TrimSpace(l), "--- PASS") || strings.HasPrefix(strings.TrimSpace(l), "--- FAIL") {
				ran++
			}
		}
		rec := map[string]interface{}{
			"contract":   "scenario " + sc.file,
			"stands_for": sc.standsFor,
			"bound":      bound + " (bounded stand-in on the real code, not a proof, not counted as discharged)",
			"tests_run":  ran,
			"failed":     bad,
			"wall_s":     time.Since(t0).Seconds(),
		}
		if ran == 0 && !bad {
			rec["note"] = "scenario did not run (build failure?): " + firstLines(out, 8)
		}
		if bad {
			rec["output"] = firstLines(out, 80)
			// one failure record per failing test of the template (a known finding names one test, so a
			// different failing test of the same template is still reported)
			var tests []string
			for _, l := range strings.Split(out, "\n") {
				l = strings.TrimSpace(l)
				if strings.HasPrefix(l, "--- FAIL: ") {
					tests = append(tests, strings.Fields(strings.TrimPrefix(l, "--- FAIL: "))[0])
				}
			}
			if len(tests) == 0 {
				tests = []string{"(panic or timeout)"}
			}
			rec["failed_tests"] = tests
			for _, tn := range tests {
				failed = append(failed, map[string]interface{}{"contract": sc.file + ":" + tn, "output": failingPart(out, tn), "source": string(data), "pkg": sc.pkgDir})
			}
		}
		recs = append(recs, rec)
	}
	return recs, failed
}

// failingPart extracts the output lines of one failing test (go test -v streams a test's messages between its
// "=== RUN" line and its "--- FAIL" line).
func failingPart(out, test string) string {
	var keep []string
	on := false
	for _, l := range strings.Split(out, "\n") {
		t := strings.TrimSpace(l)
		if strings.HasPrefix(t, "=== RUN") && strings.HasSuffix(t, test) {
			on = true
		}
		if on {
			keep = append(keep, l)
		}
		if strings.HasPrefix(t, "--- FAIL: "+test) {
			on = false
		}
	}
	if len(keep) == 0 {
		return firstLines(out, 80)
	}
	return firstLines(strings.Join(keep, "\n"), 80)
}
