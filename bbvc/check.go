package main

import (
	"encoding/json"
	"fmt"
	"os"
	"path/filepath"
	"sort"
	"strconv"
	"strings"
	"time"
)

type KnownFinding struct {
	Property   string `json:"property"`
	Obligation string `json:"obligation"` // obligation name (exact) the finding makes fail
	What       string `json:"what"`
	Status     string `json:"status"` // open | fixed
	Commit     string `json:"commit,omitempty"`
	Input      string `json:"input,omitempty"`
}

func loadKnownFindings() []KnownFinding {
	var out []KnownFinding
	data, err := os.ReadFile("/verif/KNOWN_FINDINGS.jsonl")
	if err != nil {
		return nil
	}
	for _, l := range strings.Split(string(data), "\n") {
		l = strings.TrimSpace(l)
		if l == "" || strings.HasPrefix(l, "#") {
			continue
		}
		var k KnownFinding
		if json.Unmarshal([]byte(l), &k) == nil {
			out = append(out, k)
		}
	}
	return out
}

type oblRecord struct {
	Name     string `json:"name"`
	Kind     string `json:"kind"`
	Tag      string `json:"tag"` // P L F K
	Function string `json:"function,omitempty"`
	Text     string `json:"text,omitempty"`
	Status   string `json:"status"`
	Backend  string `json:"backend"`
	Ms       int64  `json:"ms"`
	Rung     string `json:"rung,omitempty"`
}

type propRun struct {
	prop       string
	tier       string
	records    []oblRecord
	failed     []failure
	functions  []string
	assumed    map[string]bool
	trusted    map[string]bool
	warnings   map[string]bool
	undecided  []string
	bounded    []map[string]interface{}
	byBackend  map[string]int
	solverMs   int64
	vacuity    int
	bfail      []failure
}

type failure struct {
	rec    oblRecord
	detail string
	obl    *Obl
	model  string
}

func hasProp(props []string, p string) bool {
	for _, q := range props {
		if q == p {
			return true
		}
	}
	return false
}

func runCheck(prop, tier string) int {
	t0 := time.Now()
	seed := 0
	if s := os.Getenv("VERIF_SEED"); s != "" {
		seed, _ = strconv.Atoi(s)
	}
	if tier != "quick" && tier != "thorough" {
		fmt.Fprintln(os.Stderr, "tier must be quick or thorough")
		return 2
	}
	e := mustEngine()
	pr := &propRun{prop: prop, tier: tier, assumed: map[string]bool{}, trusted: map[string]bool{}, warnings: map[string]bool{}, byBackend: map[string]int{}}
	timeout := 15
	if tier == "thorough" {
		timeout = 60
	}
	// ---- P obligations: functions under contract serving this property
	var keys []string
	for k, c := range e.contracts {
		if hasProp(c.Props, prop) && !c.Trusted && !c.Opaque {
			keys = append(keys, k)
		}
	}
	sort.Strings(keys)
	for _, k := range keys {
		if e.byKey[k] == nil && (e.isIfaceMethodKey(k) || e.isFuncFieldKey(k) || strings.HasPrefix(k, "struct_")) {
			// contract of an interface method / function-valued field: used at call sites, nothing to verify here
			pr.assumed["interface/field contract used at call sites: "+k] = true
			continue
		}
		if e.byKey[k] == nil {
			// function under contract disappeared: undecided, not a violation
			pr.undecided = append(pr.undecided, k+": function not found in the current tree (renamed/removed)")
			fmt.Printf("UNDECIDED property=%s function=%s reason=function-not-found\n", prop, k)
			continue
		}
		res, err := e.verifyFunction(k)
		if err != nil {
			pr.undecided = append(pr.undecided, k+": "+err.Error())
			fmt.Printf("UNDECIDED property=%s function=%s reason=%s\n", prop, k, sanitizeLine(err.Error()))
			continue
		}
		pr.functions = append(pr.functions, k)
		if len(res.Fatals) > 0 {
			for _, f := range uniq(res.Fatals) {
				pr.undecided = append(pr.undecided, k+": "+f)
			}
			fmt.Printf("UNDECIDED property=%s function=%s reason=%s\n", prop, k, sanitizeLine(res.Fatals[0]))
			continue
		}
		for _, a := range res.Assumed {
			pr.assumed[a] = true
		}
		for _, a := range res.Trusted {
			pr.trusted[a] = true
		}
		for _, a := range res.Skipped {
			pr.assumed["skipped obligation "+a] = true
		}
		for _, w := range res.Warnings {
			pr.warnings[k+": "+w] = true
		}
		results := dischargeAll(res.Obls, timeout)
		for _, o := range res.Obls {
			r := results[o]
			rec := oblRecord{Name: o.Name, Kind: o.Kind, Tag: "P", Function: o.Fn, Text: o.Text, Status: r.Status, Backend: r.Solver, Ms: r.Ms, Rung: r.Rung}
			if o.Kind == "vacuity" {
				pr.vacuity++
			}
			pr.add(rec, r, o)
		}
	}
	// ---- lemmas
	for _, sf := range e.specs {
		for _, lm := range sf.Lemmas {
			if !hasProp(lm.Props, prop) {
				continue
			}
			o, err := e.lemmaObligation(lm)
			if err != nil {
				pr.undecided = append(pr.undecided, "lemma "+lm.Name+": "+err.Error())
				fmt.Printf("UNDECIDED property=%s lemma=%s reason=%s\n", prop, lm.Name, sanitizeLine(err.Error()))
				continue
			}
			results := dischargeAll(o, timeout)
			for _, ob := range o {
				r := results[ob]
				pr.add(oblRecord{Name: ob.Name, Kind: ob.Kind, Tag: "L", Text: ob.Text, Status: r.Status, Backend: r.Solver, Ms: r.Ms, Rung: r.Rung}, r, ob)
			}
		}
	}
	// ---- raw SMT lemmas (bit-vector facts that do not fit the contract language)
	rawLemmas, _ := filepath.Glob("/verif/contracts/lemmas/*.smt2")
	sort.Strings(rawLemmas)
	for _, lf := range rawLemmas {
		data, err := os.ReadFile(lf)
		if err != nil {
			continue
		}
		first := strings.SplitN(string(data), "\n", 2)[0]
		if !strings.HasPrefix(first, "; props ") || !hasProp(strings.Fields(strings.TrimPrefix(first, "; props ")), prop) {
			continue
		}
		t1 := time.Now()
		body := string(data)
		st, sv, out, _ := race(body, timeout*3, filepath.Base(lf), []int{0, 1})
		status := "unknown"
		if st == "unsat" {
			status = "proved"
		} else if st == "sat" {
			status = "refuted"
		}
		desc := ""
		for _, l := range strings.Split(body, "\n") {
			if strings.HasPrefix(l, "; lemma") {
				desc = strings.TrimPrefix(l, "; ")
			}
		}
		rec := oblRecord{Name: "lemma/" + strings.TrimSuffix(filepath.Base(lf), ".smt2"), Kind: "lemma", Tag: "L", Text: desc, Status: status, Backend: sv, Ms: time.Since(t1).Milliseconds()}
		pr.add(rec, &SolveResult{Status: status, Solver: sv, Output: out, Model: out, Ms: rec.Ms}, nil)
	}
	// ---- K and F obligations
	for _, sf := range e.specs {
		for _, k := range sf.KObls {
			if !hasProp(k.Props, prop) {
				continue
			}
			t1 := time.Now()
			ok, detail := e.evalK(k)
			st := "proved"
			if !ok {
				st = "refuted"
			}
			rec := oblRecord{Name: "K/" + k.Name, Kind: "layout", Tag: "K", Text: k.Text, Status: st, Backend: "consteval", Ms: time.Since(t1).Milliseconds()}
			pr.add(rec, &SolveResult{Status: st, Solver: "consteval", Output: detail, Model: detail}, nil)
		}
		for _, f := range sf.FObls {
			if !hasProp(f.Props, prop) {
				continue
			}
			t1 := time.Now()
			ok, detail := e.evalF(f)
			st := "proved"
			if !ok {
				st = "refuted"
			}
			rec := oblRecord{Name: "F/" + f.Name, Kind: "effect", Tag: "F", Text: f.Text, Status: st, Backend: "effects", Ms: time.Since(t1).Milliseconds()}
			pr.add(rec, &SolveResult{Status: st, Solver: "effects", Output: detail, Model: detail}, nil)
		}
	}
	// ---- bounded stand-ins (never counted as proved): always in the thorough tier; in the quick tier only
	// when a function under contract could not be brought within reach (UNDECIDED): the scenario then
	// stands in for the missing proof and can turn the run into a violation with a failing input.
	var bfailed []map[string]interface{}
	pr.bounded, bfailed = runBounded(e, prop, tier, seed, len(pr.undecided) > 0)
	for _, bf := range bfailed {
		rec := oblRecord{Name: "B/" + fmt.Sprint(bf["contract"]), Kind: "bounded", Tag: "B", Text: "bounded stand-in scenario on the real code", Status: "refuted", Backend: "go test -overlay"}
		pr.bfail = append(pr.bfail, failure{rec: rec, detail: fmt.Sprint(bf["output"]), model: fmt.Sprint(bf["source"]) + "\x00" + fmt.Sprint(bf["pkg"])})
	}

	return pr.finish(e, seed, t0)
}

func sanitizeLine(s string) string {
	s = strings.ReplaceAll(s, "\n", " ")
	s = strings.ReplaceAll(s, " ", "_")
	if len(s) > 160 {
		s = s[:160]
	}
	return s
}

func (pr *propRun) add(rec oblRecord, r *SolveResult, o *Obl) {
	pr.records = append(pr.records, rec)
	pr.solverMs += r.Ms
	if r.Status == "proved" {
		pr.byBackend[r.Solver]++
		return
	}
	detail := r.Model
	if detail == "" {
		detail = r.Output
	}
	pr.failed = append(pr.failed, failure{rec: rec, detail: detail, obl: o, model: r.Model})
}

func (pr *propRun) finish(e *Engine, seed int, t0 time.Time) int {
	known := loadKnownFindings()
	violations := 0
	knownReported := []string{}
	exit := 0
	os.MkdirAll(filepath.Join(outDir, "replays", pr.prop), 0o755)
	for _, f := range pr.failed {
		matched := false
		for _, k := range known {
			if k.Property == pr.prop && k.Status == "open" && k.Obligation == f.rec.Name {
				fmt.Printf("KNOWN-FINDING: property=%s %s [obligation %s]\n", pr.prop, k.What, f.rec.Name)
				knownReported = append(knownReported, f.rec.Name+": "+k.What)
				matched = true
				break
			}
		}
		if matched {
			continue
		}
		violations++
		exit = 1
		path := filepath.Join(outDir, "replays", pr.prop, sanitize(f.rec.Name)+".json")
		rp := buildReplay(e, pr.prop, f)
		data, _ := json.MarshalIndent(rp, "", " ")
		os.WriteFile(path, data, 0o644)
		suffix := ""
		if !rp.FailingInputFound {
			suffix = " no-failing-input-found"
		}
		fmt.Printf("  failed obligation %s (%s, %s): %s\n", f.rec.Name, f.rec.Kind, f.rec.Status, f.rec.Text)
		fmt.Printf("VIOLATION property=%s replay=%s%s\n", pr.prop, path, suffix)
	}
	for _, f := range pr.bfail {
		matched := false
		for _, k := range known {
			if k.Property == pr.prop && k.Status == "open" && k.Obligation == f.rec.Name {
				fmt.Printf("KNOWN-FINDING: property=%s %s [bounded scenario %s]\n", pr.prop, k.What, f.rec.Name)
				knownReported = append(knownReported, f.rec.Name+": "+k.What)
				matched = true
				break
			}
		}
		if matched {
			continue
		}
		violations++
		exit = 1
		path := filepath.Join(outDir, "replays", pr.prop, sanitize(f.rec.Name)+".json")
		parts := strings.SplitN(f.model, "\x00", 2)
		rp := &Replay{Property: pr.prop, Obligation: f.rec.Name, Kind: "bounded", Text: f.rec.Text, Status: "refuted", Backend: f.rec.Backend,
			SolverOutput: "", FailingInputFound: true, ReplayTest: parts[0], ReplayOutput: firstLines(f.detail, 80)}
		if len(parts) > 1 {
			rp.ReplayKind = parts[1]
		}
		data, _ := json.MarshalIndent(rp, "", " ")
		os.WriteFile(path, data, 0o644)
		fmt.Printf("  bounded stand-in failed on the real code: %s\n", f.rec.Name)
		fmt.Printf("VIOLATION property=%s replay=%s\n", pr.prop, path)
	}
	obligations := len(pr.records)
	discharged := 0
	for _, r := range pr.records {
		if r.Status == "proved" {
			discharged++
		}
	}
	// evidence
	var samples []interface{}
	for i, r := range pr.records {
		if i < 12 || r.Status != "proved" {
			samples = append(samples, r)
		}
	}
	trusted := []string{
		"A-tool: go/packages+go/ssa (x/tools v0.50.0), the bbvc VC generator, z3 4.8.12 / z3 5.1.0 / cvc5 1.0",
		"A-nil: pointer dereferences assumed non-nil (nil-dereference panics out of scope)",
		"A-typeassert: unchecked type assertions assumed to succeed",
		"integers: Go fixed-width arithmetic modelled bit-precisely by explicit wrap terms over SMT Int; spec arithmetic is mathematical",
	}
	for k := range pr.trusted {
		trusted = append(trusted, "trusted contract: "+k)
	}
	sort.Strings(trusted[4:])
	assumptions := []string{}
	for k := range pr.assumed {
		assumptions = append(assumptions, "unchecked callee: "+k)
	}
	sort.Strings(assumptions)
	assumptions = append(assumptions, propAssumptions[pr.prop]...)
	warns := []string{}
	for w := range pr.warnings {
		warns = append(warns, w)
	}
	sort.Strings(warns)
	cov := map[string]interface{}{
		"obligations":             obligations,
		"discharged":              discharged,
		"checker_cmd":             fmt.Sprintf("/verif/bin/bbvc check %s %s", pr.prop, pr.tier),
		"trusted_base":            trusted,
		"samples":                 samples,
		"functions_under_contract": pr.functions,
		"by_backend":              pr.byBackend,
		"solver_ms_total":         pr.solverMs,
		"vacuity_checks":          pr.vacuity,
		"known_findings_reported": knownReported,
		"undecided":               nonNil(pr.undecided),
		"bounded":                 nonNilM(pr.bounded),
		"engine_warnings":         warns,
		"by_tag":                  tagCounts(pr.records),
		"explanation":             "obligations generated from /repo's SSA (go/ssa) and the //@ contracts; each discharged by an SMT solver (P/L), by go/types constant evaluation (K) or by effect inference over the SSA call graph (F). Bounded stand-ins are listed separately and never counted as discharged.",
	}
	ev := map[string]interface{}{
		"property_id": pr.prop,
		"tier":        pr.tier,
		"seed":        seed,
		"level":       "proof",
		"coverage":    cov,
		"assumptions": assumptions,
		"wall_s":      time.Since(t0).Seconds(),
		"violations":  violations,
	}
	os.MkdirAll(filepath.Join(outDir, "evidence"), 0o755)
	data, _ := json.MarshalIndent(ev, "", " ")
	os.WriteFile(filepath.Join(outDir, "evidence", pr.prop+".json"), data, 0o644)
	fmt.Printf("%s %s: %d obligations, %d discharged, %d known findings, %d violations, %d undecided, %.1fs\n",
		pr.prop, pr.tier, obligations, discharged, len(knownReported), violations, len(pr.undecided), time.Since(t0).Seconds())
	if obligations == 0 {
		fmt.Printf("ERROR: no obligations were generated for %s (vacuous run)\n", pr.prop)
		return 3
	}
	return exit
}

func tagCounts(rs []oblRecord) map[string]int {
	m := map[string]int{}
	for _, r := range rs {
		m[r.Tag]++
	}
	return m
}

// per-property standing assumptions (DESIGN.md §5/§6); repeated in every evidence file
var propAssumptions = map[string][]string{}

type Replay struct {
	Property          string `json:"property"`
	Obligation        string `json:"obligation"`
	Kind              string `json:"kind"`
	Function          string `json:"function,omitempty"`
	Text              string `json:"text"`
	Status            string `json:"status"`
	Backend           string `json:"backend"`
	SolverOutput      string `json:"solver_output"`
	FailingInputFound bool   `json:"failing_input_found"`
	ReplayKind        string `json:"replay_kind,omitempty"`
	ReplayTest        string `json:"replay_test,omitempty"`
	ReplayCmd         string `json:"replay_cmd,omitempty"`
	ReplayOutput      string `json:"replay_output,omitempty"`
	Note              string `json:"note,omitempty"`
}

func buildReplay(e *Engine, prop string, f failure) *Replay {
	rp := &Replay{Property: prop, Obligation: f.rec.Name, Kind: f.rec.Kind, Function: f.rec.Function, Text: f.rec.Text,
		Status: f.rec.Status, Backend: f.rec.Backend, SolverOutput: firstLines(f.detail, 400)}
	tryReplay(e, prop, f, rp)
	if !rp.FailingInputFound && rp.Note == "" {
		rp.Note = "no concrete failing input was produced for this obligation; the obligation passed on the unchanged tree and fails now (solver output attached)"
	}
	return rp
}

func runReplayCmd(prop, file string) int {
	data, err := os.ReadFile(file)
	if err != nil {
		fmt.Fprintln(os.Stderr, err)
		return 2
	}
	var rp Replay
	if err := json.Unmarshal(data, &rp); err != nil {
		fmt.Fprintln(os.Stderr, err)
		return 2
	}
	fmt.Printf("obligation: %s\n%s\nstatus: %s (%s)\n", rp.Obligation, rp.Text, rp.Status, rp.Backend)
	if rp.ReplayTest == "" {
		fmt.Println("no executable replay recorded (no-failing-input-found); solver output:")
		fmt.Println(rp.SolverOutput)
		return 1
	}
	out, failed := runOverlayTest(rp.ReplayTest, rp.ReplayKind)
	fmt.Println(out)
	if failed {
		return 1
	}
	return 0
}

func listAll(e *Engine) {
	byProp := map[string][]string{}
	for k, c := range e.contracts {
		for _, p := range c.Props {
			tag := ""
			if c.Trusted {
				tag = " (trusted)"
			}
			byProp[p] = append(byProp[p], k+tag)
		}
	}
	var ps []string
	for p := range byProp {
		ps = append(ps, p)
	}
	sort.Strings(ps)
	for _, p := range ps {
		sort.Strings(byProp[p])
		fmt.Println(p)
		for _, k := range byProp[p] {
			fmt.Println("   ", k)
		}
	}
}

func nonNil(x []string) []string {
	if x == nil {
		return []string{}
	}
	return x
}
func nonNilM(x []map[string]interface{}) []map[string]interface{} {
	if x == nil {
		return []map[string]interface{}{}
	}
	return x
}
