package main

import "fmt"

func runCheck(prop, tier string) int { fmt.Println("not yet"); return 2 }
func runReplayCmd(prop, file string) int { return 2 }
func listAll(e *Engine) {
	for k, c := range e.contracts {
		fmt.Println(k, c.Props, c.Trusted)
	}
}
