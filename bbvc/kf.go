package main

// K obligations (layout/constants, back end "consteval") and F obligations (effects / call graph,
// back end "effects"), lemma obligations.

import (
	"fmt"
	"go/constant"
	"go/types"
	"math/big"
	"sort"
	"strings"

	"golang.org/x/tools/go/ssa"
)

// ---------------------------------------------------------------- K

func (e *Engine) evalK(k *KObl) (ok bool, detail string) {
	defer func() {
		if r := recover(); r != nil {
			ok = false
			detail = fmt.Sprintf("cannot evaluate: %v", r)
		}
	}()
	ex, err := parseExpr(k.Text)
	if err != nil {
		return false, err.Error()
	}
	v := e.kEval(k.Pkg, ex)
	b, isb := v.(bool)
	if !isb {
		return false, "not a boolean"
	}
	if !b {
		return false, "evaluates to false: " + e.kExplain(k.Pkg, ex)
	}
	return true, ""
}

func (e *Engine) kExplain(pkg string, ex Expr) string {
	if b, ok := ex.(*EBin); ok {
		l := e.kEval(pkg, b.L)
		r := e.kEval(pkg, b.R)
		return fmt.Sprintf("left = %v, right = %v", l, r)
	}
	return ""
}

// resolve a dotted path expression to (type, remaining field path)
func (e *Engine) kPath(pkg string, ex Expr) (types.Type, []string) {
	var parts []string
	for {
		switch n := ex.(type) {
		case *ESel:
			parts = append([]string{n.Name}, parts...)
			ex = n.X
			continue
		case *EIdent:
			parts = append([]string{n.Name}, parts...)
		default:
			panic("bad type path")
		}
		break
	}
	// try pkg.Type, then Type in pkg
	if len(parts) >= 2 {
		if o := e.lookupNamed(parts[0], parts[1]); o != nil {
			if tn, ok := o.(*types.TypeName); ok {
				return tn.Type(), parts[2:]
			}
		}
	}
	if o := e.lookupNamed(pkg, parts[0]); o != nil {
		if tn, ok := o.(*types.TypeName); ok {
			return tn.Type(), parts[1:]
		}
	}
	if o := types.Universe.Lookup(parts[0]); o != nil {
		if tn, ok := o.(*types.TypeName); ok {
			return tn.Type(), parts[1:]
		}
	}
	panic("unknown type " + strings.Join(parts, "."))
}

func (e *Engine) kEval(pkg string, ex Expr) interface{} {
	switch n := ex.(type) {
	case *EInt:
		v := constant.MakeFromLiteral(n.V, 5, 0)
		b, _ := new(big.Int).SetString(v.ExactString(), 10)
		return b
	case *EBool:
		return n.V
	case *EStr:
		return n.V
	case *EUn:
		v := e.kEval(pkg, n.X)
		if n.Op == "!" {
			return !v.(bool)
		}
		return new(big.Int).Neg(v.(*big.Int))
	case *EBin:
		switch n.Op {
		case "&&":
			return e.kEval(pkg, n.L).(bool) && e.kEval(pkg, n.R).(bool)
		case "||":
			return e.kEval(pkg, n.L).(bool) || e.kEval(pkg, n.R).(bool)
		case "==>":
			return !e.kEval(pkg, n.L).(bool) || e.kEval(pkg, n.R).(bool)
		}
		l, r := e.kEval(pkg, n.L), e.kEval(pkg, n.R)
		if ls, ok := l.(string); ok {
			switch n.Op {
			case "==":
				return ls == r.(string)
			case "!=":
				return ls != r.(string)
			}
		}
		if lb, ok := l.(bool); ok {
			switch n.Op {
			case "==":
				return lb == r.(bool)
			case "!=":
				return lb != r.(bool)
			}
		}
		a, b := l.(*big.Int), r.(*big.Int)
		switch n.Op {
		case "==":
			return a.Cmp(b) == 0
		case "!=":
			return a.Cmp(b) != 0
		case "<":
			return a.Cmp(b) < 0
		case "<=":
			return a.Cmp(b) <= 0
		case ">":
			return a.Cmp(b) > 0
		case ">=":
			return a.Cmp(b) >= 0
		case "+":
			return new(big.Int).Add(a, b)
		case "-":
			return new(big.Int).Sub(a, b)
		case "*":
			return new(big.Int).Mul(a, b)
		case "/":
			return new(big.Int).Quo(a, b)
		case "%":
			return new(big.Int).Rem(a, b)
		case "<<":
			return new(big.Int).Lsh(a, uint(b.Int64()))
		case ">>":
			return new(big.Int).Rsh(a, uint(b.Int64()))
		case "&":
			return new(big.Int).And(a, b)
		case "|":
			return new(big.Int).Or(a, b)
		}
	case *ECall:
		switch n.Fun {
		case "sizeof":
			t, rest := e.kPath(pkg, n.Args[0])
			t = e.walkFields(t, rest)
			return big.NewInt(e.sizes.Sizeof(t))
		case "alignof":
			t, rest := e.kPath(pkg, n.Args[0])
			t = e.walkFields(t, rest)
			return big.NewInt(e.sizes.Alignof(t))
		case "offsetof":
			t, rest := e.kPath(pkg, n.Args[0])
			if len(rest) == 0 {
				panic("offsetof(T.f)")
			}
			var off int64
			for _, f := range rest {
				s := t.Underlying().(*types.Struct)
				var fields []*types.Var
				idx := -1
				for i := 0; i < s.NumFields(); i++ {
					fields = append(fields, s.Field(i))
					if s.Field(i).Name() == f {
						idx = i
					}
				}
				if idx < 0 {
					panic("no field " + f)
				}
				off += e.sizes.Offsetsof(fields)[idx]
				t = s.Field(idx).Type()
			}
			return big.NewInt(off)
		case "bytearraylen": // length N of the unique *[N]byte conversion inside a function
			str, ok := n.Args[0].(*EStr)
			if !ok {
				panic("bytearraylen(\"funckey\")")
			}
			fn := e.byKey[str.V]
			if fn == nil {
				panic("function not found: " + str.V)
			}
			found := int64(-1)
			for _, b := range fn.Blocks {
				for _, ins := range b.Instrs {
					v, ok := ins.(ssa.Value)
					if !ok {
						continue
					}
					if pt, ok := v.Type().Underlying().(*types.Pointer); ok {
						if at, ok := pt.Elem().Underlying().(*types.Array); ok {
							if bt, ok := at.Elem().Underlying().(*types.Basic); ok && bt.Kind() == types.Uint8 {
								if found >= 0 && found != at.Len() {
									panic("more than one byte-array length in " + str.V)
								}
								found = at.Len()
							}
						}
					}
				}
			}
			if found < 0 {
				panic("no *[N]byte conversion in " + str.V)
			}
			return big.NewInt(found)
		case "numfields":
			t, rest := e.kPath(pkg, n.Args[0])
			t = e.walkFields(t, rest)
			return big.NewInt(int64(t.Underlying().(*types.Struct).NumFields()))
		case "kindof": // basic kind name of a (field) type, e.g. "uint64"
			t, rest := e.kPath(pkg, n.Args[0])
			t = e.walkFields(t, rest)
			return t.Underlying().String()
		}
		panic("unknown K function " + n.Fun)
	case *ESel, *EIdent:
		// constant
		var parts []string
		x := ex
		for {
			if s, ok := x.(*ESel); ok {
				parts = append([]string{s.Name}, parts...)
				x = s.X
				continue
			}
			parts = append([]string{x.(*EIdent).Name}, parts...)
			break
		}
		var o types.Object
		if len(parts) == 2 {
			o = e.lookupNamed(parts[0], parts[1])
		} else if len(parts) == 1 {
			o = e.lookupNamed(pkg, parts[0])
		}
		c, ok := o.(*types.Const)
		if !ok {
			panic("not a constant: " + strings.Join(parts, "."))
		}
		switch c.Val().Kind() {
		case constant.Int:
			b, _ := new(big.Int).SetString(c.Val().ExactString(), 10)
			return b
		case constant.Bool:
			return constant.BoolVal(c.Val())
		case constant.String:
			return constant.StringVal(c.Val())
		}
		panic("unsupported constant kind")
	}
	panic(fmt.Sprintf("unsupported K expression %T", ex))
}

func (e *Engine) walkFields(t types.Type, path []string) types.Type {
	for _, f := range path {
		s := t.Underlying().(*types.Struct)
		found := false
		for i := 0; i < s.NumFields(); i++ {
			if s.Field(i).Name() == f {
				t = s.Field(i).Type()
				found = true
			}
		}
		if !found {
			panic("no field " + f)
		}
	}
	return t
}

// ---------------------------------------------------------------- F

func (e *Engine) repoFuncs() []*ssa.Function {
	var fns []*ssa.Function
	for fn := range e.allFuncs {
		if inRepo(fn) && fn.Blocks != nil && !isTestFunc(e, fn) {
			fns = append(fns, fn)
		}
	}
	sort.Slice(fns, func(i, j int) bool { return funcKey(fns[i]) < funcKey(fns[j]) })
	return fns
}

func isTestFunc(e *Engine, fn *ssa.Function) bool {
	pos := fn.Pos()
	for f := fn; !pos.IsValid() && f.Parent() != nil; f = f.Parent() {
		pos = f.Parent().Pos()
	}
	if !pos.IsValid() {
		return false
	}
	return strings.HasSuffix(e.prog.Fset.Position(pos).Filename, "_test.go")
}

func matchKey(pat, key string) bool {
	if strings.HasSuffix(pat, "*") {
		return strings.HasPrefix(key, strings.TrimSuffix(pat, "*"))
	}
	return pat == key
}

func matchAny(pats []string, key string) bool {
	for _, p := range pats {
		if matchKey(p, key) {
			return true
		}
	}
	return false
}

func splitList(s string) []string {
	var out []string
	for _, p := range strings.Split(s, ",") {
		p = strings.TrimSpace(p)
		if p != "" {
			out = append(out, p)
		}
	}
	return out
}

// topLevel returns the key of the outermost enclosing function (closures are attributed to their parent).
func topLevelKey(fn *ssa.Function) string {
	for fn.Parent() != nil {
		fn = fn.Parent()
	}
	return funcKey(fn)
}

func (e *Engine) evalF(f *FObl) (ok bool, detail string) {
	defer func() {
		if r := recover(); r != nil {
			ok = false
			detail = fmt.Sprintf("cannot evaluate: %v", r)
		}
	}()
	text := strings.TrimSpace(f.Text)
	sp := strings.IndexAny(text, " \t")
	if sp < 0 {
		return false, "malformed F obligation"
	}
	form, rest := text[:sp], strings.TrimSpace(text[sp+1:])
	ef := e.eff
	ef.solve()
	switch form {
	case "callers": // callers <callee> subset f1, f2 ...
		k := strings.Index(rest, " subset ")
		if k < 0 {
			return false, "callers X subset A, B"
		}
		callee := strings.TrimSpace(rest[:k])
		allowed := splitList(rest[k+8:])
		var bad []string
		found := false
		for _, fn := range e.repoFuncs() {
			keys := ef.directCallKeys(fn)
			for ck := range keys {
				if matchKey(callee, ck) {
					found = true
					if !matchAny(allowed, topLevelKey(fn)) && !matchAny(allowed, funcKey(fn)) {
						bad = append(bad, funcKey(fn))
					}
				}
			}
		}
		if len(bad) > 0 {
			return false, "also called from: " + strings.Join(uniq(bad), ", ")
		}
		if !found {
			return false, "no call site of " + callee + " found at all (vacuous; callee renamed?)"
		}
		return true, ""
	case "nowrite": // nowrite <func> : prefix, prefix
		k := strings.Index(rest, ":")
		fnKey := strings.TrimSpace(rest[:k])
		prefixes := splitList(rest[k+1:])
		fn := e.byKey[fnKey]
		if fn == nil {
			return false, "function not found: " + fnKey
		}
		var bad []string
		for h := range ef.funcEffects(fn) {
			for _, p := range prefixes {
				if h == "*" || strings.HasPrefix(h, p) {
					bad = append(bad, h)
				}
			}
		}
		sort.Strings(bad)
		if len(bad) > 0 {
			return false, fnKey + " may write: " + strings.Join(uniq(bad), ", ")
		}
		return true, ""
	case "writesonly": // writesonly <func> : prefix, prefix
		k := strings.Index(rest, ":")
		fnKey := strings.TrimSpace(rest[:k])
		prefixes := splitList(rest[k+1:])
		fn := e.byKey[fnKey]
		if fn == nil {
			return false, "function not found: " + fnKey
		}
		var bad []string
		for h := range ef.funcEffects(fn) {
			okh := false
			for _, p := range prefixes {
				if strings.HasPrefix(h, p) {
					okh = true
				}
			}
			if strings.HasPrefix(h, "A$") || strings.HasPrefix(h, "IT$") {
				okh = true
			}
			if !okh {
				bad = append(bad, h)
			}
		}
		sort.Strings(bad)
		if len(bad) > 0 {
			return false, fnKey + " may also write: " + strings.Join(bad, ", ")
		}
		return true, ""
	case "noreach": // noreach <func> : callee-pattern, ...
		k := strings.Index(rest, ":")
		fnKey := strings.TrimSpace(rest[:k])
		pats := splitList(rest[k+1:])
		var roots []*ssa.Function
		for _, fn := range e.repoFuncs() {
			if matchKey(fnKey, funcKey(fn)) {
				roots = append(roots, fn)
			}
		}
		if len(roots) == 0 {
			return false, "function not found: " + fnKey
		}
		var bad []string
		for _, root := range roots {
			for fn := range e.reachAll(root) {
				for ck := range ef.directCallKeys(fn) {
					if matchAny(pats, ck) {
						bad = append(bad, funcKey(root)+" -> ... -> "+funcKey(fn)+" calls "+ck)
					}
				}
			}
		}
		sort.Strings(bad)
		if len(bad) > 0 {
			return false, strings.Join(uniq(bad), "; ")
		}
		return true, ""
	case "fieldwriters", "fieldusers": // fieldwriters T.f subset f1, f2
		k := strings.Index(rest, " subset ")
		if k < 0 {
			return false, form + " T.f subset A, B"
		}
		field := strings.TrimSpace(rest[:k])
		allowed := splitList(rest[k+8:])
		var bad []string
		found := false
		for _, fn := range e.repoFuncs() {
			for _, b := range fn.Blocks {
				for _, ins := range b.Instrs {
					fa, ok := ins.(*ssa.FieldAddr)
					if !ok {
						continue
					}
					st := derefType(fa.X.Type())
					name := typeKey(st) + "." + st.Underlying().(*types.Struct).Field(fa.Field).Name()
					if name != field {
						continue
					}
					if form == "fieldwriters" {
						written := false
						for _, u := range *fa.Referrers() {
							if s, ok := u.(*ssa.Store); ok && s.Addr == fa {
								written = true
							}
						}
						if !written {
							continue
						}
					}
					found = true
					if !matchAny(allowed, topLevelKey(fn)) && !matchAny(allowed, funcKey(fn)) {
						bad = append(bad, funcKey(fn))
					}
				}
			}
		}
		if len(bad) > 0 {
			return false, field + " also accessed in: " + strings.Join(uniq(bad), ", ")
		}
		if !found {
			return false, "no access to " + field + " found (vacuous; field renamed?)"
		}
		return true, ""
	case "constarg": // constarg <func> calls <callee> arg <i> == <const-expr>  (every call site in func)
		return e.evalConstArg(f.Pkg, rest)
	case "openoptions": // openoptions <func-pattern> : Field == value  (every bbolt.Open call in matching funcs)
		return e.evalOpenOptions(f.Pkg, rest)
	}
	return false, "unknown F form " + form
}

// reachAll: transitive closure over all static call edges (including contract-bearing callees), closures, CHA.
func (e *Engine) reachAll(root *ssa.Function) map[*ssa.Function]bool {
	seen := map[*ssa.Function]bool{root: true}
	stack := []*ssa.Function{root}
	for len(stack) > 0 {
		f := stack[len(stack)-1]
		stack = stack[:len(stack)-1]
		for _, b := range f.Blocks {
			for _, ins := range b.Instrs {
				var targets []*ssa.Function
				switch i := ins.(type) {
				case *ssa.MakeClosure:
					targets = append(targets, i.Fn.(*ssa.Function))
				case ssa.CallInstruction:
					cc := i.Common()
					if cc.IsInvoke() {
						targets = append(targets, e.eff.implementations(cc)...)
					} else if c := cc.StaticCallee(); c != nil {
						targets = append(targets, c)
					}
					for _, a := range cc.Args {
						if fv, ok := a.(*ssa.Function); ok {
							targets = append(targets, fv)
						}
					}
				}
				for _, t := range targets {
					if t != nil && inRepo(t) && !seen[t] {
						seen[t] = true
						stack = append(stack, t)
					}
				}
			}
		}
	}
	return seen
}

func (e *Engine) evalConstArg(pkg, rest string) (bool, string) {
	// <func> calls <callee> arg <i> == <expr>
	f := strings.Fields(rest)
	if len(f) < 7 || f[1] != "calls" || f[3] != "arg" || f[5] != "==" {
		return false, "constarg F calls G arg i == expr"
	}
	fn := e.byKey[f[0]]
	if fn == nil {
		return false, "function not found: " + f[0]
	}
	var idx int
	fmt.Sscanf(f[4], "%d", &idx)
	want := e.kEval(pkg, mustParse(strings.Join(f[6:], " "))).(*big.Int)
	found := false
	for _, b := range fn.Blocks {
		for _, ins := range b.Instrs {
			ci, ok := ins.(ssa.CallInstruction)
			if !ok {
				continue
			}
			c := ci.Common().StaticCallee()
			if c == nil || funcKey(c) != f[2] {
				continue
			}
			found = true
			if idx >= len(ci.Common().Args) {
				return false, "argument index out of range"
			}
			got, ok := constFold(ci.Common().Args[idx])
			if !ok {
				return false, fmt.Sprintf("argument %d of %s in %s is not a compile-time constant expression", idx, f[2], f[0])
			}
			if got.Cmp(want) != 0 {
				return false, fmt.Sprintf("argument %d of %s in %s is %s, want %s", idx, f[2], f[0], got, want)
			}
		}
	}
	if !found {
		return false, "no call of " + f[2] + " in " + f[0]
	}
	return true, ""
}

func mustParse(s string) Expr {
	e, err := parseExpr(s)
	if err != nil {
		panic(err)
	}
	return e
}

// constFold folds constants through |, +, conversions.
func constFold(v ssa.Value) (*big.Int, bool) {
	switch c := v.(type) {
	case *ssa.Const:
		if c.Value != nil && c.Value.Kind() == constant.Int {
			b, ok := new(big.Int).SetString(c.Value.ExactString(), 10)
			return b, ok
		}
	case *ssa.Convert:
		return constFold(c.X)
	case *ssa.ChangeType:
		return constFold(c.X)
	case *ssa.BinOp:
		a, ok1 := constFold(c.X)
		b, ok2 := constFold(c.Y)
		if ok1 && ok2 {
			switch c.Op.String() {
			case "|":
				return new(big.Int).Or(a, b), true
			case "+":
				return new(big.Int).Add(a, b), true
			case "&":
				return new(big.Int).And(a, b), true
			}
		}
	}
	return nil, false
}

// evalOpenOptions: every call of bbolt.Open in the matching functions passes an Options literal whose
// field has the given constant value.
func (e *Engine) evalOpenOptions(pkg, rest string) (bool, string) {
	k := strings.Index(rest, ":")
	if k < 0 {
		return false, "openoptions funcpattern : Field == true|false"
	}
	pats := splitList(rest[:k])
	cond := strings.Fields(rest[k+1:])
	if len(cond) != 3 || cond[1] != "==" {
		return false, "openoptions funcpattern : Field == value"
	}
	field, want := cond[0], cond[2]
	found := 0
	for _, fn := range e.repoFuncs() {
		if !matchAny(pats, funcKey(fn)) && !matchAny(pats, topLevelKey(fn)) {
			continue
		}
		for _, b := range fn.Blocks {
			for _, ins := range b.Instrs {
				ci, ok := ins.(ssa.CallInstruction)
				if !ok {
					continue
				}
				c := ci.Common().StaticCallee()
				if c == nil || funcKey(c) != "bbolt.Open" {
					continue
				}
				found++
				if want == "first" && found > 1 {
					continue
				}
				opt := ci.Common().Args[2]
				alloc, ok := opt.(*ssa.Alloc)
				if !ok {
					return false, fmt.Sprintf("%s: options argument of bbolt.Open is not a literal", funcKey(fn))
				}
				val := "false"
				nstores := 0
				for _, u := range *alloc.Referrers() {
					fa, ok := u.(*ssa.FieldAddr)
					if !ok {
						continue
					}
					st := derefType(fa.X.Type()).Underlying().(*types.Struct)
					if st.Field(fa.Field).Name() != field {
						continue
					}
					for _, uu := range *fa.Referrers() {
						if s, ok := uu.(*ssa.Store); ok {
							nstores++
							if cst, ok := s.Val.(*ssa.Const); ok && cst.Value != nil && cst.Value.Kind() == constant.Bool {
								val = fmt.Sprint(constant.BoolVal(cst.Value))
							} else {
								val = "non-constant"
							}
						}
					}
				}
				if nstores > 1 {
					val = "assigned more than once"
				}
				if want == "unset" {
					// the field must keep its zero value (default): no store at all
					if nstores != 0 {
						return false, fmt.Sprintf("%s: bbolt.Open called with %s assigned, want the default (unset)", funcKey(fn), field)
					}
					continue
				}
				wantv := want
				if want == "first" {
					wantv = "true"
				}
				if val != wantv {
					return false, fmt.Sprintf("%s: bbolt.Open called with %s = %s, want %s", funcKey(fn), field, val, wantv)
				}
			}
		}
	}
	if found == 0 {
		return false, "no bbolt.Open call found in " + strings.Join(pats, ",")
	}
	return true, ""
}

// ---------------------------------------------------------------- lemmas

func (e *Engine) lemmaObligation(lm *Lemma) ([]*Obl, error) {
	x := newExec(e, nil, nil)
	x.curBlk = -1
	st := &State{heap: map[string]string{}}
	x.declare("alc!0", "Int")
	st.alc = "alc!0"
	c := x.newCtx(st, st, lm.Pkg, "true", nil)
	for _, v := range lm.Vars {
		t, err := e.resolveSpecType(lm.Pkg, v.Type)
		if err != nil {
			return nil, err
		}
		sort := specSort(t)
		if sort == "Str" {
			x.declSort("Str")
		}
		n := x.fresh("lv."+v.Name, sort)
		c.env[v.Name] = envEntry{v: Sc{T: n, S: sort}, t: t.gt}
		if t.sort == "" {
			x.assume("true", rangeFormula(t.gt, n))
		}
	}
	for _, ax := range e.axioms {
		ac := x.newCtx(st, st, ax.Pkg, "true", nil)
		f, err := ac.formula(ax.E)
		if err != nil {
			return nil, fmt.Errorf("axiom %s: %v", ax.Name, err)
		}
		x.assume("true", f)
	}
	for _, h := range lm.Hyps {
		f, err := c.formula(h.E)
		if err != nil {
			return nil, fmt.Errorf("%s:%d: %v", h.File, h.Line, err)
		}
		x.assume("true", f)
	}
	x.obls = append(x.obls, &Obl{Name: "lemma." + lm.Name + "/vacuity", Kind: "vacuity", Formula: "false", Prefix: len(x.items), Text: "lemma hypotheses are satisfiable", x: x, Blk: -1})
	for k, cl := range lm.Concl {
		c.pol = 1
		f, err := c.formula(cl.E)
		if err != nil {
			return nil, fmt.Errorf("%s:%d: %v", cl.File, cl.Line, err)
		}
		lbl := cl.Label
		if lbl == "" {
			lbl = fmt.Sprint(k)
		}
		x.obls = append(x.obls, &Obl{Name: "lemma." + lm.Name + "/" + lbl, Kind: "lemma", Formula: f, Prefix: len(x.items), Clause: cl, Text: "lemma " + lm.Name + ": " + cl.Text, x: x, Blk: -1})
	}
	return x.obls, nil
}
