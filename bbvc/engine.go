package main

import (
	"fmt"
	"go/types"
	"os"
	"path/filepath"
	"sort"
	"strings"

	"golang.org/x/tools/go/packages"
	"golang.org/x/tools/go/ssa"
	"golang.org/x/tools/go/ssa/ssautil"
)

// repoDir is /repo for every registered check; BBVC_REPO / BBVC_OUT exist only so that the seeded
// must-fail corpus can be run in parallel against scratch worktrees (seeds_verify.py).
var repoDir = envOr("BBVC_REPO", "/repo")
var outDir = envOr("BBVC_OUT", "/verif")

func envOr(k, d string) string {
	if v := os.Getenv(k); v != "" {
		return v
	}
	return d
}

var loadPatterns = []string{
	"go.etcd.io/bbolt",
	"go.etcd.io/bbolt/internal/common",
	"go.etcd.io/bbolt/internal/freelist",
	"go.etcd.io/bbolt/internal/surgeon",
	"go.etcd.io/bbolt/internal/guts_cli",
	"go.etcd.io/bbolt/cmd/bbolt/command",
	"go.etcd.io/bbolt/cmd/bbolt",
	"go.etcd.io/bbolt/errors",
}

type Engine struct {
	pkgs     []*packages.Package
	prog     *ssa.Program
	spkgs    map[string]*ssa.Package // by package name (last path element; bbolt root = "bbolt")
	tpkgs    map[string]*types.Package
	allFuncs map[*ssa.Function]bool
	byKey    map[string]*ssa.Function

	specs     []*SpecFile
	contracts map[string]*Contract // by canonical key
	pures     map[string]*PureFunc // by pkg.name and bare name
	ghostVars map[string]*GhostDecl
	ghostFlds map[string]*GhostDecl // "pkg.T.name"
	axioms    []*Axiom

	heapSorts map[string]string // heap name -> SMT sort (registry; reset to baseHeapSorts before every function so that a function's VCs do not depend on which functions were verified before it in the same process)
	baseHeapSorts map[string]string
	usorts    map[string]bool
	ufuncs    map[string]string // uninterpreted function decls: name -> decl text

	eff *Effects

	sizes types.Sizes
}

func pkgShort(path string) string {
	if path == "go.etcd.io/bbolt" {
		return "bbolt"
	}
	if path == "go.etcd.io/bbolt/errors" {
		return "berrors"
	}
	if path == "go.etcd.io/bbolt/cmd/bbolt" {
		return "main"
	}
	return path[strings.LastIndex(path, "/")+1:]
}

func loadEngine() (*Engine, error) {
	cfg := &packages.Config{
		Mode:       packages.LoadAllSyntax,
		Dir:        repoDir,
		BuildFlags: []string{"-tags=verif"},
		Env:        append(os.Environ(), "GOFLAGS=-mod=mod", "GOPROXY=off", "GOSUMDB=off", "GOTOOLCHAIN=local", "GOOS=linux", "GOARCH=amd64"),
	}
	pkgs, err := packages.Load(cfg, loadPatterns...)
	if err != nil {
		return nil, err
	}
	nerr := 0
	packages.Visit(pkgs, nil, func(p *packages.Package) {
		for _, e := range p.Errors {
			if strings.HasPrefix(p.PkgPath, "go.etcd.io/bbolt") {
				fmt.Fprintf(os.Stderr, "load error: %v\n", e)
				nerr++
			}
		}
	})
	if nerr > 0 {
		return nil, fmt.Errorf("%d package load errors (the tree does not compile with -tags=verif)", nerr)
	}
	prog, _ := ssautil.AllPackages(pkgs, ssa.GlobalDebug|ssa.InstantiateGenerics)
	prog.Build()
	e := &Engine{
		pkgs: pkgs, prog: prog,
		spkgs: map[string]*ssa.Package{}, tpkgs: map[string]*types.Package{},
		byKey: map[string]*ssa.Function{}, contracts: map[string]*Contract{},
		pures: map[string]*PureFunc{}, ghostVars: map[string]*GhostDecl{}, ghostFlds: map[string]*GhostDecl{},
		heapSorts: map[string]string{}, usorts: map[string]bool{}, ufuncs: map[string]string{},
		sizes: types.SizesFor("gc", "amd64"),
	}
	for _, sp := range prog.AllPackages() {
		if sp.Pkg == nil {
			continue
		}
		name := pkgShort(sp.Pkg.Path())
		if strings.HasPrefix(sp.Pkg.Path(), "go.etcd.io/bbolt") {
			e.spkgs[name] = sp
			e.tpkgs[name] = sp.Pkg
		} else {
			if _, ok := e.spkgs[sp.Pkg.Path()]; !ok {
				e.spkgs[sp.Pkg.Path()] = sp
				e.tpkgs[sp.Pkg.Path()] = sp.Pkg
			}
		}
	}
	e.allFuncs = ssautil.AllFunctions(prog)
	for fn := range e.allFuncs {
		k := funcKey(fn)
		if k != "" {
			if _, dup := e.byKey[k]; !dup {
				e.byKey[k] = fn
			}
		}
	}
	return e, nil
}

// funcKey: canonical key "pkg.(*T).m", "pkg.T.m", "pkg.f", closures "pkg.f$1".
func funcKey(fn *ssa.Function) string {
	if fn.Pkg == nil && fn.Parent() == nil && fn.Signature.Recv() == nil {
		if fn.Synthetic != "" && fn.Object() == nil {
			return ""
		}
	}
	if fn.Parent() != nil {
		pk := funcKey(fn.Parent())
		if pk == "" {
			return ""
		}
		// fn.Name() is like "Update$1"
		n := fn.Name()
		if i := strings.LastIndex(n, "$"); i >= 0 {
			return pk + n[i:]
		}
		return pk + "$" + n
	}
	var pkg *types.Package
	if fn.Pkg != nil {
		pkg = fn.Pkg.Pkg
	} else if fn.Object() != nil {
		pkg = fn.Object().Pkg()
	}
	if pkg == nil {
		return ""
	}
	pn := pkgShort(pkg.Path())
	if !strings.HasPrefix(pkg.Path(), "go.etcd.io/bbolt") {
		pn = pkg.Path()
	}
	if recv := fn.Signature.Recv(); recv != nil {
		t := recv.Type()
		ptr := false
		if p, ok := t.(*types.Pointer); ok {
			t = p.Elem()
			ptr = true
		}
		tn := "?"
		if n, ok := t.(*types.Named); ok {
			tn = n.Obj().Name()
		}
		if ptr {
			return fmt.Sprintf("%s.(*%s).%s", pn, tn, fn.Name())
		}
		return fmt.Sprintf("%s.%s.%s", pn, tn, fn.Name())
	}
	return pn + "." + fn.Name()
}

// typeKey: short stable name of a type for heap naming.
func typeKey(t types.Type) string {
	switch u := t.(type) {
	case *types.Named:
		o := u.Obj()
		if o.Pkg() == nil {
			return o.Name()
		}
		pn := o.Pkg().Path()
		if strings.HasPrefix(pn, "go.etcd.io/bbolt") {
			pn = pkgShort(pn)
		}
		return pn + "." + o.Name()
	case *types.Alias:
		return typeKey(types.Unalias(u))
	case *types.Basic:
		return u.Name()
	case *types.Pointer:
		return "ptr_" + typeKey(u.Elem())
	case *types.Slice:
		return "sl_" + typeKey(u.Elem())
	case *types.Map:
		return "map_" + typeKey(u.Key()) + "_" + typeKey(u.Elem())
	case *types.Struct:
		if u.NumFields() == 0 {
			return "struct0"
		}
		var fs []string
		for i := 0; i < u.NumFields(); i++ {
			fs = append(fs, u.Field(i).Name())
		}
		return "struct_" + strings.Join(fs, "_")
	case *types.Interface:
		if u.NumMethods() == 0 {
			return "any"
		}
		return "iface"
	case *types.Array:
		return fmt.Sprintf("arr%d_%s", u.Len(), typeKey(u.Elem()))
	case *types.Signature:
		return "func"
	case *types.Chan:
		return "chan_" + typeKey(u.Elem())
	case *types.Tuple:
		return "tuple"
	}
	return sanitize(t.String())
}

func sanitize(s string) string {
	var b strings.Builder
	for _, r := range s {
		if r >= 'a' && r <= 'z' || r >= 'A' && r <= 'Z' || r >= '0' && r <= '9' || r == '_' || r == '.' || r == '$' {
			b.WriteRune(r)
		} else {
			b.WriteRune('_')
		}
	}
	return b.String()
}

// ---------------------------------------------------------------- contracts loading

func (e *Engine) specPaths() []string {
	var out []string
	// contract files inside /repo (hooks, tag verif)
	filepath.Walk(repoDir, func(p string, info os.FileInfo, err error) error {
		if err == nil && !info.IsDir() && info.Name() == "zz_contracts_verif.go" {
			out = append(out, p)
		}
		return nil
	})
	sort.Strings(out)
	// library contracts (trusted) live in /verif
	libs, _ := filepath.Glob("/verif/contracts/lib/*.go")
	sort.Strings(libs)
	out = append(out, libs...)
	return out
}

// mirrorPath returns /verif's copy of a /repo contract file.
func mirrorPath(repoPath string) string {
	rel, _ := filepath.Rel(repoDir, repoPath)
	return filepath.Join("/verif/contracts/repo", rel)
}

func (e *Engine) loadSpecs() error {
	paths := e.specPaths()
	// fall back to /verif's mirror when a repo contract file is missing
	seen := map[string]bool{}
	for _, p := range paths {
		seen[p] = true
	}
	filepath.Walk("/verif/contracts/repo", func(p string, info os.FileInfo, err error) error {
		if err == nil && !info.IsDir() && info.Name() == "zz_contracts_verif.go" {
			rel, _ := filepath.Rel("/verif/contracts/repo", p)
			rp := filepath.Join(repoDir, rel)
			if !seen[rp] {
				fmt.Fprintf(os.Stderr, "warning: %s missing, using /verif mirror\n", rp)
				paths = append(paths, p)
			}
		}
		return nil
	})
	for _, p := range paths {
		sf, err := readSpecFile(p)
		if err != nil {
			return err
		}
		e.specs = append(e.specs, sf)
		for _, c := range sf.Contracts {
			key, err := e.resolveKey(c.Key)
			if err != nil {
				return fmt.Errorf("%s:%d: %v", c.File, c.Line, err)
			}
			c.Key = key
			if _, dup := e.contracts[key]; dup {
				return fmt.Errorf("%s:%d: duplicate contract for %s", c.File, c.Line, key)
			}
			e.contracts[key] = c
		}
		for _, pf := range sf.Pures {
			e.pures[pf.Pkg+"."+pf.Name] = pf
			if _, ok := e.pures[pf.Name]; !ok {
				e.pures[pf.Name] = pf
			}
		}
		for _, g := range sf.Ghosts {
			if g.Kind == "var" {
				e.ghostVars[g.Name] = g
			} else {
				owner := g.Owner
				if !strings.Contains(owner, ".") {
					owner = g.Pkg + "." + owner
				}
				e.ghostFlds[owner+"."+g.Name] = g
			}
		}
		e.axioms = append(e.axioms, sf.Axioms...)
	}
	return nil
}

// resolveKey resolves "?pkg|a.b..." ambiguous keys.
func (e *Engine) resolveKey(k string) (string, error) {
	if !strings.HasPrefix(k, "?") {
		return k, nil
	}
	body := k[1:]
	bar := strings.Index(body, "|")
	pkg, s := body[:bar], body[bar+1:]
	// candidate 1: local type
	c1 := pkg + "." + s
	// candidate 2: s is already package-qualified; the package part may contain slashes or dots
	// e.g. "sync.(*Mutex).Lock", "os.(*File).Truncate", "golang.org/x/sys/unix.Mmap"
	if _, ok := e.byKey[c1]; ok {
		return c1, nil
	}
	if _, ok := e.byKey[s]; ok {
		return s, nil
	}
	// interface methods have no ssa.Function; accept "pkg.Iface.Method" when Iface is an interface
	for _, cand := range []string{c1, s} {
		if e.isIfaceMethodKey(cand) {
			return cand, nil
		}
	}
	// function-valued fields: "bbolt.ops.writeAt"
	for _, cand := range []string{c1, s} {
		if e.isFuncFieldKey(cand) {
			return cand, nil
		}
	}
	if strings.HasPrefix(s, "struct_") {
		return s, nil // function-valued field of an anonymous struct type (keyed by its heap origin)
	}
	return "", fmt.Errorf("cannot resolve function %q (tried %s and %s)", s, c1, s)
}

func (e *Engine) lookupNamed(pkg, name string) types.Object {
	tp := e.tpkgs[pkg]
	if tp == nil {
		return nil
	}
	return tp.Scope().Lookup(name)
}

func splitKey(k string) (pkg, typ, name string, ok bool) {
	// "pkg.T.m" where pkg may contain dots/slashes: split from the right
	i := strings.LastIndex(k, ".")
	if i < 0 {
		return
	}
	name = k[i+1:]
	rest := k[:i]
	j := strings.LastIndex(rest, ".")
	if j < 0 {
		return
	}
	typ = rest[j+1:]
	pkg = rest[:j]
	ok = true
	return
}

func (e *Engine) isIfaceMethodKey(k string) bool {
	pkg, typ, name, ok := splitKey(k)
	if !ok {
		return false
	}
	o := e.lookupNamed(pkg, typ)
	if o == nil {
		return false
	}
	it, ok := o.Type().Underlying().(*types.Interface)
	if !ok {
		return false
	}
	for i := 0; i < it.NumMethods(); i++ {
		if it.Method(i).Name() == name {
			return true
		}
	}
	return false
}

func (e *Engine) isFuncFieldKey(k string) bool {
	pkg, typ, name, ok := splitKey(k)
	if !ok {
		return false
	}
	o := e.lookupNamed(pkg, typ)
	if o == nil {
		return false
	}
	st, ok := o.Type().Underlying().(*types.Struct)
	if !ok {
		return false
	}
	for i := 0; i < st.NumFields(); i++ {
		if st.Field(i).Name() == name {
			_, isf := st.Field(i).Type().Underlying().(*types.Signature)
			return isf
		}
	}
	return false
}

// resolveType resolves a textual type from a contract in the context of package pkg.
func (e *Engine) resolveType(pkg, s string) (types.Type, error) {
	s = strings.TrimSpace(s)
	if strings.HasPrefix(s, "*") {
		t, err := e.resolveType(pkg, s[1:])
		if err != nil {
			return nil, err
		}
		return types.NewPointer(t), nil
	}
	if strings.HasPrefix(s, "[]") {
		t, err := e.resolveType(pkg, s[2:])
		if err != nil {
			return nil, err
		}
		return types.NewSlice(t), nil
	}
	if strings.HasPrefix(s, "map[") {
		depth := 0
		for i, ch := range s {
			if ch == '[' {
				depth++
			} else if ch == ']' {
				depth--
				if depth == 0 {
					k, err := e.resolveType(pkg, s[4:i])
					if err != nil {
						return nil, err
					}
					v, err := e.resolveType(pkg, s[i+1:])
					if err != nil {
						return nil, err
					}
					return types.NewMap(k, v), nil
				}
			}
		}
	}
	switch s {
	case "mathint":
		return types.Typ[types.UntypedInt], nil
	case "struct{}":
		return types.NewStruct(nil, nil), nil
	}
	if o := types.Universe.Lookup(s); o != nil {
		if tn, ok := o.(*types.TypeName); ok {
			return tn.Type(), nil
		}
	}
	if i := strings.LastIndex(s, "."); i >= 0 {
		p, n := s[:i], s[i+1:]
		if o := e.lookupNamed(p, n); o != nil {
			return o.Type(), nil
		}
		return nil, fmt.Errorf("unknown type %s", s)
	}
	if o := e.lookupNamed(pkg, s); o != nil {
		return o.Type(), nil
	}
	// try imported packages of pkg
	if tp := e.tpkgs[pkg]; tp != nil {
		for _, imp := range tp.Imports() {
			if o := imp.Scope().Lookup(s); o != nil {
				if _, ok := o.(*types.TypeName); ok {
					return o.Type(), nil
				}
			}
		}
	}
	return nil, fmt.Errorf("unknown type %s (package %s)", s, pkg)
}
