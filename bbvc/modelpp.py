#!/usr/bin/env python3
# pretty-print scalar values of a z3 model: usage modelpp.py file.smt2 [regex]
import re,sys,subprocess
out=subprocess.run(['z3','-T:30',sys.argv[1]],capture_output=True,text=True).stdout
print(out.split('\n')[0])
pat=re.compile(sys.argv[2]) if len(sys.argv)>2 else re.compile(r'^(t\d+|p\.|R\.|E\.|alc|search|r\.)')
for m in re.finditer(r'\(define-fun (\S+) \(\) (Int|Bool)\s+([^\n]+)\)\n',out):
    if pat.search(m.group(1)): print(m.group(1),m.group(3))
