package main

import (
	"regexp"
	"sort"
	"bytes"
	"context"
	"crypto/sha256"
	"fmt"
	"os"
	"os/exec"
	"path/filepath"
	"strings"
	"sync"
	"time"
)

type SolveResult struct {
	Status  string // proved | refuted | unknown
	Solver  string
	Ms      int64
	Model   string
	Output  string
	Pieces  int
	Rung    string
	File    string
}

type solverDef struct {
	name string
	cmd  func(file string, timeoutS int) []string
	pre  string
}

var solvers = []solverDef{
	{"z3-4.8.12", func(f string, t int) []string { return []string{"/usr/bin/z3", fmt.Sprintf("-T:%d", t), "-smt2", f} }, ""},
	{"z3-5.1.0", func(f string, t int) []string { return []string{"z3-new", fmt.Sprintf("-T:%d", t), "-smt2", f} }, ""},
	{"cvc5-1.0", func(f string, t int) []string {
		return []string{"/usr/bin/cvc5", fmt.Sprintf("--tlimit=%d", t*1000), "--lang=smt2", f}
	}, "(set-logic ALL)\n"},
	// further attempts used only by the second-chance pass: the same solvers with other random seeds (the search of
	// an SMT solver on quantified goals is sensitive to incidental ordering; an unsat answer is an answer whatever the seed)
	{"z3-5.1.0/seed7", func(f string, t int) []string {
		return []string{"z3-new", fmt.Sprintf("-T:%d", t), "smt.random_seed=7", "sat.random_seed=7", "-smt2", f}
	}, ""},
	{"z3-5.1.0/seed42", func(f string, t int) []string {
		return []string{"z3-new", fmt.Sprintf("-T:%d", t), "smt.random_seed=42", "sat.random_seed=42", "-smt2", f}
	}, ""},
	{"z3-4.8.12/seed7", func(f string, t int) []string {
		return []string{"/usr/bin/z3", fmt.Sprintf("-T:%d", t), "smt.random_seed=7", "sat.random_seed=7", "-smt2", f}
	}, ""},
}

// solver sets: the ordinary race and the widened one of the second-chance pass
var raceSet = []int{1, 2, 0}
var retrySet = []int{1, 2, 0, 3, 4, 5}
var curRace = raceSet

var tmpDir string
var tmpOnce sync.Once

func scratch() string {
	tmpOnce.Do(func() {
		d, err := os.MkdirTemp("", "bbvc")
		if err != nil {
			panic(err)
		}
		tmpDir = d
	})
	return tmpDir
}

func cleanupScratch() {
	if tmpDir != "" {
		os.RemoveAll(tmpDir)
	}
}

var nlRe = regexp.MustCompile(`\(\* [^0-9( ][^ )]* [^0-9( ]|\(\* \([^*]*\) [^0-9 ]|\(\* [^0-9( ][^ )]* \(`)

// isNonlinear: the assertion multiplies two non-literal terms
func isNonlinear(line string) bool {
	return strings.Contains(line, "(* ") && nlRe.MatchString(line)
}

// smtLinear is smt() without assumptions that contain nonlinear products (a weaker context: a proof found
// there is a proof in the full context)
func (o *Obl) smtLinear(formula string) (string, bool) {
	full := o.smt(formula, false)
	var sb strings.Builder
	dropped := false
	lines := strings.Split(full, "\n")
	for i, l := range lines {
		if i < len(lines)-3 && strings.HasPrefix(l, "(assert ") && isNonlinear(l) {
			dropped = true
			continue
		}
		sb.WriteString(l)
		sb.WriteByte('\n')
	}
	return sb.String(), dropped
}

func (o *Obl) smt(formula string, wantModel bool) string {
	var sb strings.Builder
	if wantModel {
		sb.WriteString("(set-option :produce-models true)\n")
	}
	anc := o.x.anc[o.Blk]
	for k, it := range o.x.items[:o.Prefix] {
		if b := o.x.itemBlk[k]; b >= 0 && anc != nil && !anc[b] {
			continue
		}
		sb.WriteString(it)
		sb.WriteByte('\n')
	}
	for _, ex := range o.Extra {
		sb.WriteString(ex)
		sb.WriteByte('\n')
	}
	fmt.Fprintf(&sb, "(assert (not %s))\n(check-sat)\n", formula)
	if wantModel {
		sb.WriteString("(get-model)\n")
	}
	return sb.String()
}

func runSolver(ctx context.Context, sd solverDef, text string, timeoutS int, tag string) (status string, out string, ms int64) {
	h := sha256.Sum256([]byte(text))
	file := filepath.Join(scratch(), fmt.Sprintf("%s-%x-%s.smt2", sanitize(tag), h[:6], sd.name))
	if len(file) > 200 {
		file = filepath.Join(scratch(), fmt.Sprintf("o-%x-%s.smt2", h[:10], sd.name))
	}
	body := text
	if sd.pre != "" {
		// cvc5: set-logic must come after set-option produce-models
		if strings.HasPrefix(body, "(set-option :produce-models true)\n") {
			body = "(set-option :produce-models true)\n" + sd.pre + strings.TrimPrefix(body, "(set-option :produce-models true)\n")
		} else {
			body = sd.pre + body
		}
	}
	if err := os.WriteFile(file, []byte(body), 0o644); err != nil {
		return "error", err.Error(), 0
	}
	defer os.Remove(file)
	args := sd.cmd(file, timeoutS)
	cctx, cancel := context.WithTimeout(ctx, time.Duration(timeoutS+2)*time.Second)
	defer cancel()
	cmd := exec.CommandContext(cctx, args[0], args[1:]...)
	var buf bytes.Buffer
	cmd.Stdout = &buf
	cmd.Stderr = &buf
	t0 := time.Now()
	_ = cmd.Run()
	ms = time.Since(t0).Milliseconds()
	out = buf.String()
	first := strings.TrimSpace(strings.SplitN(out, "\n", 2)[0])
	switch first {
	case "unsat":
		return "unsat", out, ms
	case "sat":
		return "sat", out, ms
	case "unknown", "timeout":
		return "unknown", out, ms
	}
	if cctx.Err() != nil {
		return "unknown", "timeout", ms
	}
	return "error", out, ms
}

var solveSem = make(chan struct{}, 14)

// race runs the solvers on one query; first definite answer wins.
func race(text string, timeoutS int, tag string, which []int) (status, solver, out string, ms int64) {
	ctx, cancel := context.WithCancel(context.Background())
	defer cancel()
	type res struct {
		status, solver, out string
		ms                  int64
	}
	ch := make(chan res, len(which))
	for _, k := range which {
		sd := solvers[k]
		go func() {
			solveSem <- struct{}{}
			defer func() { <-solveSem }()
			if ctx.Err() != nil {
				ch <- res{"unknown", sd.name, "cancelled", 0}
				return
			}
			s, o, m := runSolver(ctx, sd, text, timeoutS, tag)
			ch <- res{s, sd.name, o, m}
		}()
	}
	var last res
	var satRes *res
	for range which {
		r := <-ch
		if r.status == "unsat" {
			return r.status, r.solver, r.out, r.ms
		}
		if r.status == "sat" && satRes == nil {
			rr := r
			satRes = &rr
			// keep waiting briefly: another solver may still prove unsat? no - sat is definite
			return r.status, r.solver, r.out, r.ms
		}
		if r.status != "error" || last.status == "" {
			last = r
		}
	}
	if last.status == "error" {
		fmt.Fprintf(os.Stderr, "solver error on %s: %s\n", tag, firstLines(last.out, 3))
	}
	return last.status, last.solver, last.out, last.ms
}

// splitConj splits "(=> G (and a b c))" / "(and a b c)" into pieces with the same guard.
func splitConj(f string) []string {
	var guards []string
	body := f
	for strings.HasPrefix(body, "(=> ") {
		parts := sexprArgs(body)
		if len(parts) != 2 {
			break
		}
		guards = append(guards, parts[0])
		body = parts[1]
	}
	if !strings.HasPrefix(body, "(and ") {
		return nil
	}
	cs := flattenAnd(body)
	if len(cs) < 2 {
		return nil
	}
	var out []string
	for _, c := range cs {
		for i := len(guards) - 1; i >= 0; i-- {
			c = sx("=>", guards[i], c)
		}
		out = append(out, c)
	}
	return out
}

// flattenAnd returns the conjuncts of a (possibly nested) conjunction "(and (and a b) c)" -> a, b, c
func flattenAnd(f string) []string {
	if !strings.HasPrefix(f, "(and ") {
		return []string{f}
	}
	var out []string
	for _, c := range sexprArgs(f) {
		out = append(out, flattenAnd(c)...)
	}
	return out
}

// sexprArgs returns the arguments of "(op a b c)".
func sexprArgs(s string) []string {
	s = strings.TrimSpace(s)
	if !strings.HasPrefix(s, "(") || !strings.HasSuffix(s, ")") {
		return nil
	}
	inner := s[1 : len(s)-1]
	// skip operator
	k := strings.IndexAny(inner, " \t\n")
	if k < 0 {
		return nil
	}
	inner = inner[k+1:]
	var out []string
	depth := 0
	start := -1
	inBar := false
	for i := 0; i < len(inner); i++ {
		ch := inner[i]
		if inBar {
			if ch == '|' {
				inBar = false
			}
			continue
		}
		switch ch {
		case '|':
			inBar = true
			if start < 0 {
				start = i
			}
		case '(':
			if depth == 0 && start < 0 {
				start = i
			}
			depth++
		case ')':
			depth--
			if depth == 0 && start >= 0 && inner[start] == '(' {
				out = append(out, inner[start:i+1])
				start = -1
			}
		case ' ', '\t', '\n':
			if depth == 0 && start >= 0 {
				out = append(out, inner[start:i])
				start = -1
			}
		default:
			if depth == 0 && start < 0 {
				start = i
			}
		}
	}
	if start >= 0 {
		out = append(out, inner[start:])
	}
	return out
}

// discharge one obligation with the escalation ladder.
func discharge(o *Obl, timeoutS int) *SolveResult {
	t0 := time.Now()
	if o.Kind == "vacuity" {
		// expected: NOT unsat (sat, or unknown because of quantifiers)
		goal := "false"
		if o.Formula != "" && o.Formula != "false" {
			goal = o.Formula // reachability of a program point: assert its guard (Formula = (not guard))
		}
		text := o.smt(goal, false)
		st, sv, out, _ := race(text, minInt(timeoutS, 3), o.Name, []int{0, 1})
		r := &SolveResult{Solver: sv, Ms: time.Since(t0).Milliseconds(), Output: firstLines(out, 3), Rung: "vacuity"}
		if st == "unsat" {
			r.Status = "refuted" // contradictory assumptions
			r.Output = "assumptions are contradictory (vacuous proof)"
		} else {
			r.Status = "proved"
		}
		return r
	}
	if o.Formula == "true" || strings.HasSuffix(o.Formula, " true)") && strings.HasPrefix(o.Formula, "(=> ") {
		return &SolveResult{Status: "proved", Solver: "trivial", Rung: "trivial"}
	}
	text := o.smt(o.Formula, true)
	// rung 0: quick single-solver attempt
	st, out, _ := runOne(0, text, minInt(2, timeoutS), o.Name)
	if st == "unsat" {
		return &SolveResult{Status: "proved", Solver: solvers[0].name, Ms: time.Since(t0).Milliseconds(), Rung: "whole", Pieces: 1}
	}
	if st == "sat" {
		// confirm with the race (a second opinion is cheap) but keep the model
		return &SolveResult{Status: "refuted", Solver: solvers[0].name, Ms: time.Since(t0).Milliseconds(), Model: out, Rung: "whole", Pieces: 1}
	}
	// rung 0b: the same obligation without nonlinear assumptions (weaker context, sound for proving);
	// irrelevant products of sizes otherwise send the arithmetic solvers into nlsat
	if lin, dropped := o.smtLinear(o.Formula); dropped && !isNonlinear(o.Formula) {
		if st2, sv2, _, _ := race(lin, minInt(timeoutS, 5), o.Name+".lin", []int{0, 1}); st2 == "unsat" {
			return &SolveResult{Status: "proved", Solver: sv2, Ms: time.Since(t0).Milliseconds(), Rung: "whole-linear", Pieces: 1}
		}
	}
	// rung 1: race all solvers on the whole obligation
	st, sv, out, _ := race(text, timeoutS, o.Name, curRace)
	if st == "unsat" {
		return &SolveResult{Status: "proved", Solver: sv, Ms: time.Since(t0).Milliseconds(), Rung: "whole", Pieces: 1}
	}
	if st == "sat" {
		return &SolveResult{Status: "refuted", Solver: sv, Ms: time.Since(t0).Milliseconds(), Model: out, Rung: "whole", Pieces: 1}
	}
	// rung 2: one query per conjunct
	pieces := splitConj(o.Formula)
	if len(pieces) > 1 && len(pieces) <= 64 {
		allOK := true
		var winners []string
		var failOut string
		var mu sync.Mutex
		var wg sync.WaitGroup
		for pi, p := range pieces {
			wg.Add(1)
			go func(pi int, p string) {
				defer wg.Done()
				s, v, oo, _ := race(o.smt(p, true), timeoutS, fmt.Sprintf("%s.p%d", o.Name, pi), curRace)
				mu.Lock()
				defer mu.Unlock()
				if s != "unsat" {
					allOK = false
					failOut = fmt.Sprintf("conjunct %d: %s (%s)\n%s", pi, s, v, firstLines(oo, 40))
					if s == "sat" {
						failOut = "SAT " + failOut
					}
				} else {
					winners = append(winners, v)
				}
			}(pi, p)
		}
		wg.Wait()
		if allOK {
			return &SolveResult{Status: "proved", Solver: strings.Join(uniq(winners), "+"), Ms: time.Since(t0).Milliseconds(), Rung: "conjuncts", Pieces: len(pieces)}
		}
		status := "unknown"
		if strings.HasPrefix(failOut, "SAT ") {
			status = "refuted"
		}
		return &SolveResult{Status: status, Solver: sv, Ms: time.Since(t0).Milliseconds(), Model: failOut, Output: failOut, Rung: "conjuncts", Pieces: len(pieces)}
	}
	return &SolveResult{Status: "unknown", Solver: sv, Ms: time.Since(t0).Milliseconds(), Output: firstLines(out, 5), Rung: "whole", Pieces: 1}
}

func runOne(k int, text string, timeoutS int, tag string) (string, string, int64) {
	solveSem <- struct{}{}
	defer func() { <-solveSem }()
	return runSolver(context.Background(), solvers[k], text, timeoutS, tag)
}

func uniq(xs []string) []string {
	seen := map[string]bool{}
	var out []string
	for _, x := range xs {
		if !seen[x] {
			seen[x] = true
			out = append(out, x)
		}
	}
	return out
}

func firstLines(s string, n int) string {
	ls := strings.Split(s, "\n")
	if len(ls) > n {
		ls = ls[:n]
	}
	return strings.Join(ls, "\n")
}

func minInt(a, b int) int {
	if a < b {
		return a
	}
	return b
}

// dischargeAll runs obligations concurrently.
func dischargeAll(obls []*Obl, timeoutS int) map[*Obl]*SolveResult {
	res := make(map[*Obl]*SolveResult, len(obls))
	var mu sync.Mutex
	var wg sync.WaitGroup
	sem := make(chan struct{}, 12)
	for _, o := range obls {
		wg.Add(1)
		go func(o *Obl) {
			defer wg.Done()
			sem <- struct{}{}
			r := discharge(o, timeoutS)
			<-sem
			mu.Lock()
			res[o] = r
			mu.Unlock()
		}(o)
	}
	wg.Wait()
	// Second chance (robustness against machine load): an obligation that ended "unknown" (solver timeout, no
	// counter-model) is tried again, alone, with four times the budget, before it is reported. Obligations are
	// retried one after the other and the pass stops at the first one that still fails: one confirmed failure
	// decides the check, the rest keep their first verdict.
	var again []*Obl
	for _, o := range obls {
		if r := res[o]; r != nil && r.Status == "unknown" && o.Kind != "vacuity" {
			again = append(again, o)
		}
	}
	sort.Slice(again, func(i, j int) bool { return res[again[i]].Ms < res[again[j]].Ms })
	curRace = retrySet
	defer func() { curRace = raceSet }()
	for _, o := range again {
		r := discharge(o, timeoutS*4)
		r.Rung += "+retry"
		first := res[o]
		r.Ms += first.Ms
		res[o] = r
		if r.Status != "proved" {
			break
		}
	}
	return res
}
