#!/usr/bin/env python3
# greedy unsat-core minimisation of a VC file: prints the surviving assertions
import sys, subprocess, tempfile, os
f = sys.argv[1]
lines = open(f).read().split('\n')
idx = [i for i, l in enumerate(lines) if l.startswith('(assert')]
def unsat(keep):
    ks = set(keep)
    txt = '\n'.join(l for i, l in enumerate(lines) if not l.startswith('(assert') or i in ks)
    txt = txt.replace('(get-model)', '')
    with tempfile.NamedTemporaryFile('w', suffix='.smt2', delete=False) as t:
        t.write(txt); name = t.name
    try:
        out = subprocess.run(['z3', '-T:5', name], capture_output=True, text=True).stdout
    finally:
        os.unlink(name)
    return out.strip().startswith('unsat')
keep = list(idx)
assert unsat(keep), "not unsat to begin with"
# chunked removal
chunk = max(1, len(keep) // 8)
while chunk >= 1:
    i = 0
    while i < len(keep):
        trial = keep[:i] + keep[i + chunk:]
        if unsat(trial):
            keep = trial
        else:
            i += chunk
    chunk //= 2
for i in keep:
    print(i + 1, lines[i][:400])
