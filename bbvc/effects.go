package main

// Effect inference (back end "effects"): which heaps a function may write, which functions it may
// reach. Sound over-approximation; CHA for interface calls; closures followed through MakeClosure.

import (
	"go/token"
	"fmt"
	"go/types"
	"sort"
	"strings"

	"golang.org/x/tools/go/ssa"
)

type Effects struct {
	eng     *Engine
	direct  map[*ssa.Function]map[string]bool
	callees map[*ssa.Function]map[*ssa.Function]bool
	dyn     map[*ssa.Function]bool // contains a call through an unknown function value
	extern  map[*ssa.Function]map[string]bool // keys of contract-bearing / external callees (by key)
	total   map[*ssa.Function]map[string]bool
	impls   map[string][]*ssa.Function // "ifaceKey.Method" -> implementations
	done    bool
	helper  *Exec
}

func newEffects(e *Engine) *Effects {
	return &Effects{eng: e, direct: map[*ssa.Function]map[string]bool{}, callees: map[*ssa.Function]map[*ssa.Function]bool{},
		dyn: map[*ssa.Function]bool{}, extern: map[*ssa.Function]map[string]bool{}, total: map[*ssa.Function]map[string]bool{}, impls: map[string][]*ssa.Function{}}
}

func inRepo(fn *ssa.Function) bool {
	for fn.Parent() != nil {
		fn = fn.Parent()
	}
	var p *types.Package
	if fn.Pkg != nil {
		p = fn.Pkg.Pkg
	} else if fn.Object() != nil {
		p = fn.Object().Pkg()
	}
	return p != nil && strings.HasPrefix(p.Path(), "go.etcd.io/bbolt")
}

func (ef *Effects) reg(name, elemSort string) {
	if _, ok := ef.eng.heapSorts[name]; ok {
		return
	}
	if strings.HasPrefix(name, "E$") {
		ef.eng.heapSorts[name] = arr2Sort(elemSort)
	} else {
		ef.eng.heapSorts[name] = arrSort(elemSort)
	}
}

func (ef *Effects) typeComps(base string, t types.Type, out map[string]bool) {
	defer func() {
		if base == "" {
			return
		}
		switch kindOf(t) {
		case KSlice:
			for _, suf := range []string{".arr", ".off", ".len", ".cap"} {
				ef.reg(base+suf, "Int")
			}
		case KIface:
			ef.reg(base+".tag", "Int")
			ef.reg(base+".ref", "Int")
		case KInt, KPtr, KBool, KStr, KReal:
			ef.reg(base, sortOfKind(kindOf(t)))
		}
	}()
	switch kindOf(t) {
	case KStruct:
		s := t.Underlying().(*types.Struct)
		for i := 0; i < s.NumFields(); i++ {
			ef.typeComps(fieldHeap(t, s.Field(i)), s.Field(i).Type(), out)
		}
	case KSlice:
		for _, suf := range []string{".arr", ".off", ".len", ".cap"} {
			out[base+suf] = true
		}
	case KIface:
		out[base+".tag"] = true
		out[base+".ref"] = true
	case KArray:
		out[base] = true
	default:
		out[base] = true
	}
}

// heaps written by a store of a value of type t through address value addr
func (ef *Effects) storeTargets(fn *ssa.Function, addr ssa.Value, out map[string]bool) {
	et := derefType(addr.Type())
	if et == nil {
		out["*"] = true
		return
	}
	switch a := addr.(type) {
	case *ssa.FieldAddr:
		st := derefType(a.X.Type())
		f := st.Underlying().(*types.Struct).Field(a.Field)
		ef.typeComps(fieldHeap(st, f), f.Type(), out)
		return
	case *ssa.IndexAddr:
		var elem types.Type
		switch u := a.X.Type().Underlying().(type) {
		case *types.Slice:
			elem = u.Elem()
		case *types.Pointer:
			if at, ok := u.Elem().Underlying().(*types.Array); ok {
				elem = at.Elem()
			}
		}
		if elem != nil {
			ef.typeComps("E$"+typeKey(elem), elem, out)
			return
		}
	case *ssa.Alloc:
		if kindOf(et) == KStruct {
			ef.typeComps("", et, out)
		} else {
			ef.typeComps("A$"+sanitize(funcKey(fn))+"$"+a.Name(), et, out)
		}
		return
	case *ssa.FreeVar:
		if kindOf(et) == KStruct {
			ef.typeComps("", et, out)
		} else {
			ef.typeComps(ef.freeVarHeap(fn, a), et, out)
		}
		return
	case *ssa.Global:
		if kindOf(et) == KStruct {
			ef.typeComps("", et, out)
		} else {
			ef.typeComps("GL$"+sanitize(a.Pkg.Pkg.Name()+"."+a.Name()), et, out)
		}
		return
	}
	if kindOf(et) == KStruct {
		ef.typeComps("", et, out)
		return
	}
	ef.typeComps("C$"+typeKey(et), et, out)
}

func (ef *Effects) freeVarHeap(fn *ssa.Function, fv *ssa.FreeVar) string {
	idx := -1
	for i, v := range fn.FreeVars {
		if v == fv {
			idx = i
		}
	}
	parent := fn.Parent()
	if parent == nil || idx < 0 {
		return "C$" + typeKey(derefType(fv.Type()))
	}
	for _, b := range parent.Blocks {
		for _, ins := range b.Instrs {
			mc, ok := ins.(*ssa.MakeClosure)
			if !ok || mc.Fn != fn {
				continue
			}
			switch bv := mc.Bindings[idx].(type) {
			case *ssa.Alloc:
				return "A$" + sanitize(funcKey(parent)) + "$" + bv.Name()
			case *ssa.FreeVar:
				return ef.freeVarHeap(parent, bv)
			}
		}
	}
	return "C$" + typeKey(derefType(fv.Type()))
}

func (ef *Effects) mapHeapNames(mt *types.Map, out map[string]bool) {
	ks, vs := mapSorts(mt)
	if ks == "" {
		ks = "Int"
	}
	b := mapHeapBase(mt)
	if _, ok := ef.eng.heapSorts[b+".dom"]; !ok {
		ef.eng.heapSorts[b+".dom"] = fmt.Sprintf("(Array Int (Array %s Bool))", ks)
		ef.eng.heapSorts[b+".card"] = "(Array Int Int)"
		if vs != "" {
			ef.eng.heapSorts[b+".val"] = fmt.Sprintf("(Array Int (Array %s %s))", ks, vs)
		}
	}
	mapHeapNames(mt, out)
}

func mapHeapNames(mt *types.Map, out map[string]bool) {
	base := mapHeapBase(mt)
	out[base+".dom"] = true
	out[base+".card"] = true
	if _, vs := mapSorts(mt); vs != "" {
		out[base+".val"] = true
	}
}

// static heap names of a contract's modifies clauses
func (ef *Effects) contractMods(con *Contract, fn *ssa.Function, sig *types.Signature) (map[string]bool, bool) {
	if len(con.Modifies) == 0 {
		return nil, false
	}
	out := map[string]bool{}
	env := map[string]types.Type{}
	if fn != nil {
		for _, p := range fn.Params {
			env[p.Name()] = p.Type()
		}
	} else if sig != nil {
		for i := 0; i < sig.Params().Len(); i++ {
			env[sig.Params().At(i).Name()] = sig.Params().At(i).Type()
		}
	}
	for _, cl := range con.Modifies {
		for _, m := range cl.Mods {
			ef.modNames(con.Pkg, env, m, out)
		}
	}
	return out, true
}

func (ef *Effects) staticType(pkg string, env map[string]types.Type, e Expr) types.Type {
	switch n := e.(type) {
	case *EIdent:
		if t, ok := env[n.Name]; ok {
			return t
		}
		if g, ok := ef.eng.ghostVars[n.Name]; ok {
			st, err := ef.eng.resolveSpecType(g.Pkg, g.Type)
			if err == nil {
				return st.gt
			}
		}
	case *ESel:
		t := ef.staticType(pkg, env, n.X)
		if t == nil {
			return nil
		}
		return ef.fieldType(t, n.Name)
	case *EIdx:
		t := ef.staticType(pkg, env, n.X)
		if t == nil {
			return nil
		}
		switch u := t.Underlying().(type) {
		case *types.Slice:
			return u.Elem()
		case *types.Map:
			return u.Elem()
		}
	case *ECall:
		if n.Fun == "old" && len(n.Args) == 1 {
			return ef.staticType(pkg, env, n.Args[0])
		}
		pf := ef.eng.pures[pkg+"."+n.Fun]
		if pf == nil {
			pf = ef.eng.pures[n.Fun]
		}
		if pf != nil && pf.Ret != "" {
			if st, err := ef.eng.resolveSpecType(pf.Pkg, pf.Ret); err == nil {
				return st.gt
			}
		}
	}
	return nil
}

func (ef *Effects) fieldType(t types.Type, name string) types.Type {
	if p, ok := t.Underlying().(*types.Pointer); ok {
		t = p.Elem()
	}
	s, ok := t.Underlying().(*types.Struct)
	if !ok {
		return nil
	}
	if g, ok := ef.eng.ghostFlds[typeKey(t)+"."+name]; ok {
		st, err := ef.eng.resolveSpecType(g.Pkg, g.Type)
		if err == nil {
			return st.gt
		}
	}
	for i := 0; i < s.NumFields(); i++ {
		if s.Field(i).Name() == name {
			return s.Field(i).Type()
		}
	}
	for i := 0; i < s.NumFields(); i++ {
		if s.Field(i).Embedded() {
			if ft := ef.fieldType(s.Field(i).Type(), name); ft != nil {
				return ft
			}
		}
	}
	return nil
}

func (ef *Effects) ownerOf(t types.Type, name string) (types.Type, *types.Var) {
	if p, ok := t.Underlying().(*types.Pointer); ok {
		t = p.Elem()
	}
	s, ok := t.Underlying().(*types.Struct)
	if !ok {
		return nil, nil
	}
	for i := 0; i < s.NumFields(); i++ {
		if s.Field(i).Name() == name {
			return t, s.Field(i)
		}
	}
	for i := 0; i < s.NumFields(); i++ {
		if s.Field(i).Embedded() {
			if ot, f := ef.ownerOf(s.Field(i).Type(), name); f != nil {
				return ot, f
			}
		}
	}
	return nil, nil
}

func (ef *Effects) modNames(pkg string, env map[string]types.Type, m Expr, out map[string]bool) {
	switch n := m.(type) {
	case *ECall:
		switch n.Fun {
		case "elems":
			t := ef.staticType(pkg, env, n.Args[0])
			if sl, ok := t.Underlying().(*types.Slice); t != nil && ok {
				ef.typeComps("E$"+typeKey(sl.Elem()), sl.Elem(), out)
				return
			}
		case "allelems":
			if s, ok := n.Args[0].(*EStr); ok {
				if t, err := ef.eng.resolveType(pkg, s.V); err == nil {
					ef.typeComps("E$"+typeKey(t), t, out)
					return
				}
			}
		case "mapof":
			t := ef.staticType(pkg, env, n.Args[0])
			if t != nil {
				if mt, ok := t.Underlying().(*types.Map); ok {
					ef.mapHeapNames(mt, out)
					return
				}
			}
		case "allmaps":
			k, ok1 := n.Args[0].(*EStr)
			v, ok2 := n.Args[1].(*EStr)
			if ok1 && ok2 {
				kt, e1 := ef.eng.resolveType(pkg, k.V)
				vt, e2 := ef.eng.resolveType(pkg, v.V)
				if e1 == nil && e2 == nil {
					ef.mapHeapNames(types.NewMap(kt, vt), out)
					return
				}
			}
		case "all":
			if s, ok := n.Args[0].(*EStr); ok {
				k := strings.LastIndex(s.V, ".")
				if k > 0 {
					if t, err := ef.eng.resolveType(pkg, s.V[:k]); err == nil {
						ef.fieldNames(t, s.V[k+1:], out)
						return
					}
				}
			}
		case "everything":
			out["*"] = true
			out["*ghost"] = true
			return
		case "nonghost":
			out["*"] = true
			return
		}
	case *ESel:
		t := ef.staticType(pkg, env, n.X)
		if t != nil {
			ef.fieldNames(t, n.Name, out)
			return
		}
	case *EIdent:
		if _, ok := ef.eng.ghostVars[n.Name]; ok {
			out["G$"+n.Name] = true
			return
		}
	}
	out["*"] = true // could not resolve statically: be conservative
}

func (ef *Effects) fieldNames(t types.Type, name string, out map[string]bool) {
	if p, ok := t.Underlying().(*types.Pointer); ok {
		t = p.Elem()
	}
	if _, ok := ef.eng.ghostFlds[typeKey(t)+"."+name]; ok {
		out["H$"+typeKey(t)+"$"+name] = true
		return
	}
	ot, f := ef.ownerOf(t, name)
	if f == nil {
		// ghost field on an embedded type?
		if s, ok := t.Underlying().(*types.Struct); ok {
			for i := 0; i < s.NumFields(); i++ {
				if s.Field(i).Embedded() {
					bt := s.Field(i).Type()
					if p, ok := bt.Underlying().(*types.Pointer); ok {
						bt = p.Elem()
					}
					if hasFieldDeep(ef.eng, bt, name) {
						ef.fieldNames(bt, name, out)
						return
					}
				}
			}
		}
		out["*"] = true
		return
	}
	ef.typeComps(fieldHeap(ot, f), f.Type(), out)
}

func (ef *Effects) analyze(fn *ssa.Function) {
	if _, ok := ef.direct[fn]; ok {
		return
	}
	d := map[string]bool{}
	cs := map[*ssa.Function]bool{}
	ex := map[string]bool{}
	ef.direct[fn] = d
	ef.callees[fn] = cs
	ef.extern[fn] = ex
	for _, b := range fn.Blocks {
		for _, ins := range b.Instrs {
			switch i := ins.(type) {
			case *ssa.Store:
				ef.storeTargets(fn, i.Addr, d)
			case *ssa.MapUpdate:
				ef.mapHeapNames(i.Map.Type().Underlying().(*types.Map), d)
			case *ssa.UnOp:
				if i.Op == token.ARROW {
					d["G$recvtotal"] = true // channel receive: ghost receive counter
				}
			case *ssa.Send:
				d["G$sent"] = true
				d["G$sentnil"] = true
				d["G$sentval.tag"] = true
				d["G$sentval.ref"] = true
			case *ssa.Range:
				if _, ok := i.X.Type().Underlying().(*types.Map); ok {
					d["IT$"+sanitize(funcKey(fn))+"$"+i.Name()] = true
				}
			case ssa.CallInstruction:
				ef.callSite(fn, i.Common(), d, cs, ex)
			}
		}
	}
}

func (ef *Effects) callSite(fn *ssa.Function, cc *ssa.CallCommon, d map[string]bool, cs map[*ssa.Function]bool, ex map[string]bool) {
	if b, ok := cc.Value.(*ssa.Builtin); ok {
		switch b.Name() {
		case "append", "copy":
			if sl, ok := cc.Args[0].Type().Underlying().(*types.Slice); ok {
				ef.typeComps("E$"+typeKey(sl.Elem()), sl.Elem(), d)
			}
		case "delete":
			ef.mapHeapNames(cc.Args[0].Type().Underlying().(*types.Map), d)
		case "clear":
			switch u := cc.Args[0].Type().Underlying().(type) {
			case *types.Map:
				ef.mapHeapNames(u, d)
			case *types.Slice:
				ef.typeComps("E$"+typeKey(u.Elem()), u.Elem(), d)
			}
		}
		return
	}
	// function-valued arguments that are known closures/functions may be called by the callee
	for _, a := range cc.Args {
		switch av := a.(type) {
		case *ssa.MakeClosure:
			cs[av.Fn.(*ssa.Function)] = true
		case *ssa.Function:
			cs[av] = true
		}
	}
	if cc.IsInvoke() {
		key := typeKey(cc.Value.Type()) + "." + cc.Method.Name()
		ex[key] = true
		if con := ef.eng.contracts[key]; con != nil {
			d[callCounter(key)] = true
			ef.eng.heapSorts[callCounter(key)] = "(Array Int Int)"
			if mods, ok := ef.contractMods(con, nil, cc.Method.Type().(*types.Signature)); ok {
				for k := range mods {
					d[k] = true
				}
				return
			}
		}
		for _, impl := range ef.implementations(cc) {
			cs[impl] = true
		}
		return
	}
	callee := cc.StaticCallee()
	if callee == nil {
		switch v := cc.Value.(type) {
		case *ssa.MakeClosure:
			callee = v.Fn.(*ssa.Function)
		default:
			// value loaded from a function-typed field with a contract?
			if origin := fieldOrigin(cc.Value); origin != "" {
				ex[origin] = true
				if con := ef.eng.contracts[origin]; con != nil {
					d[callCounter(origin)] = true
					ef.eng.heapSorts[callCounter(origin)] = "(Array Int Int)"
					if mods, ok := ef.contractMods(con, nil, cc.Signature()); ok {
						for k := range mods {
							d[k] = true
						}
						return
					}
				}
			}
			if par, ok := cc.Value.(*ssa.Parameter); ok {
				if con := ef.eng.contracts[funcKey(fn)]; con != nil {
					for _, pn := range con.CallbackPure {
						if pn == par.Name() {
							return // assumed pure (A-user)
						}
					}
				}
			}
			ef.dyn[fn] = true
			d["*"] = true
			return
		}
	}
	key := funcKey(callee)
	ex[key] = true
	if con := ef.eng.contracts[key]; con != nil && !con.Inline {
		d[callCounter(key)] = true
		ef.eng.heapSorts[callCounter(key)] = "(Array Int Int)"
		if mods, ok := ef.contractMods(con, callee, callee.Signature); ok {
			for k := range mods {
				d[k] = true
			}
			return
		}
	}
	if names, ok := libEffects(ef, callee, cc); ok {
		for k := range names {
			d[k] = true
		}
		return
	}
	if inRepo(callee) {
		cs[callee] = true
	}
	// external functions without contract: no effect on tracked state (A-lib-pure), apart from the
	// callbacks handled above
}

func fieldOrigin(v ssa.Value) string {
	u, ok := v.(*ssa.UnOp)
	if !ok {
		return ""
	}
	fa, ok := u.X.(*ssa.FieldAddr)
	if !ok {
		return ""
	}
	st := derefType(fa.X.Type())
	f := st.Underlying().(*types.Struct).Field(fa.Field)
	return typeKey(st) + "." + f.Name()
}

func (ef *Effects) implementations(cc *ssa.CallCommon) []*ssa.Function {
	key := typeKey(cc.Value.Type()) + "." + cc.Method.Name()
	if r, ok := ef.impls[key]; ok {
		return r
	}
	iface, _ := cc.Value.Type().Underlying().(*types.Interface)
	var out []*ssa.Function
	if iface != nil {
		for fn := range ef.eng.allFuncs {
			recv := fn.Signature.Recv()
			if recv == nil || fn.Name() != cc.Method.Name() || !inRepo(fn) {
				continue
			}
			if types.Implements(recv.Type(), iface) {
				out = append(out, fn)
			}
		}
	}
	sort.Slice(out, func(i, j int) bool { return funcKey(out[i]) < funcKey(out[j]) })
	ef.impls[key] = out
	return out
}

func (ef *Effects) solve() {
	if ef.done {
		return
	}
	ef.done = true
	var fns []*ssa.Function
	for fn := range ef.eng.allFuncs {
		if inRepo(fn) && fn.Blocks != nil {
			fns = append(fns, fn)
		}
	}
	sort.Slice(fns, func(i, j int) bool { return funcKey(fns[i]) < funcKey(fns[j]) })
	for _, fn := range fns {
		ef.analyze(fn)
	}
	for _, fn := range fns {
		t := map[string]bool{}
		for k := range ef.direct[fn] {
			t[k] = true
		}
		ef.total[fn] = t
	}
	for changed := true; changed; {
		changed = false
		for _, fn := range fns {
			t := ef.total[fn]
			for c := range ef.callees[fn] {
				if _, ok := ef.total[c]; !ok {
					ef.analyze(c)
					tt := map[string]bool{}
					for k := range ef.direct[c] {
						tt[k] = true
					}
					ef.total[c] = tt
					changed = true
				}
				for k := range ef.total[c] {
					if !t[k] {
						t[k] = true
						changed = true
					}
				}
			}
		}
	}
}

func (ef *Effects) funcEffects(fn *ssa.Function) map[string]bool {
	ef.solve()
	if t, ok := ef.total[fn]; ok {
		return t
	}
	if fn.Blocks == nil || !inRepo(fn) {
		return map[string]bool{}
	}
	ef.analyze(fn)
	return ef.direct[fn]
}

func (ef *Effects) callEffects(cc *ssa.CallCommon) map[string]bool {
	ef.solve()
	d := map[string]bool{}
	cs := map[*ssa.Function]bool{}
	ex := map[string]bool{}
	ef.callSite(nil, cc, d, cs, ex)
	for c := range cs {
		for k := range ef.funcEffects(c) {
			d[k] = true
		}
	}
	return d
}

func (ef *Effects) loopWrites(fn *ssa.Function, li *loopInfo) map[string]bool {
	ef.solve()
	d := map[string]bool{}
	cs := map[*ssa.Function]bool{}
	ex := map[string]bool{}
	for b := range li.body {
		for _, ins := range b.Instrs {
			switch i := ins.(type) {
			case *ssa.Store:
				ef.storeTargets(fn, i.Addr, d)
			case *ssa.MapUpdate:
				ef.mapHeapNames(i.Map.Type().Underlying().(*types.Map), d)
			case *ssa.UnOp:
				if i.Op == token.ARROW {
					d["G$recvtotal"] = true // channel receive: ghost receive counter
				}
			case *ssa.Send:
				d["G$sent"] = true
				d["G$sentnil"] = true
				d["G$sentval.tag"] = true
				d["G$sentval.ref"] = true
			case *ssa.Next:
				if r, ok := i.Iter.(*ssa.Range); ok {
					d["IT$"+sanitize(funcKey(fn))+"$"+r.Name()] = true
				}
			case *ssa.Alloc:
				// zero-initialisation of a fresh cell/struct is a write
				et := derefType(i.Type())
				if kindOf(et) == KStruct {
					ef.typeComps("", et, d)
				} else if kindOf(et) != KArray {
					ef.typeComps("A$"+sanitize(funcKey(fn))+"$"+i.Name(), et, d)
				}
			case *ssa.MakeMap:
				ef.mapHeapNames(i.Type().Underlying().(*types.Map), d)
			case *ssa.MakeSlice:
				et := i.Type().Underlying().(*types.Slice).Elem()
				ef.typeComps("E$"+typeKey(et), et, d)
			case *ssa.Convert:
				if kindOf(i.X.Type()) == KStr && kindOf(i.Type()) == KSlice {
					d["E$byte"] = true
				}
			case ssa.CallInstruction:
				ef.callSite(fn, i.Common(), d, cs, ex)
			}
		}
	}
	for c := range cs {
		for k := range ef.funcEffects(c) {
			d[k] = true
		}
	}
	return d
}

// reachable functions (transitively) from fn through static calls, closures and CHA
func (ef *Effects) reach(fn *ssa.Function) map[*ssa.Function]bool {
	ef.solve()
	seen := map[*ssa.Function]bool{fn: true}
	stack := []*ssa.Function{fn}
	for len(stack) > 0 {
		f := stack[len(stack)-1]
		stack = stack[:len(stack)-1]
		ef.analyze(f)
		for c := range ef.callees[f] {
			if !seen[c] {
				seen[c] = true
				stack = append(stack, c)
			}
		}
	}
	return seen
}

// externKeys: keys of all callees (including external and contract-bearing) called directly in fn
func (ef *Effects) directCallKeys(fn *ssa.Function) map[string]bool {
	ef.solve()
	ef.analyze(fn)
	out := map[string]bool{}
	for k := range ef.extern[fn] {
		out[k] = true
	}
	for c := range ef.callees[fn] {
		out[funcKey(c)] = true
	}
	return out
}

func (ef *Effects) String(fn *ssa.Function) string {
	var ks []string
	for k := range ef.funcEffects(fn) {
		ks = append(ks, k)
	}
	sort.Strings(ks)
	return fmt.Sprint(ks)
}
