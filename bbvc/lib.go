package main

// Built-in models of a few standard-library functions (trusted: A-lib).  Everything else external
// is either given a trusted contract in /verif/contracts/lib or treated as effect-free with an
// unconstrained result (A-lib-pure).

import (
	"fmt"
	"go/types"
	"strings"

	"golang.org/x/tools/go/ssa"
)

func (x *Exec) libModel(fr *Frame, st *State, reach string, callee *ssa.Function, key string, args []Val, ins ssa.Instruction, rt types.Type) (Val, bool) {
	if x.eng.contracts[key] != nil {
		return nil, false
	}
	switch key {
	case "bytes.Compare":
		a, ok1 := args[0].(SliceV)
		b, ok2 := args[1].(SliceV)
		if ok1 && ok2 {
			return I(x.strCmp(x.bytesVal(st, a), x.bytesVal(st, b))), true
		}
	case "bytes.Equal":
		a, ok1 := args[0].(SliceV)
		b, ok2 := args[1].(SliceV)
		if ok1 && ok2 {
			return B(sx("=", x.bytesVal(st, a), x.bytesVal(st, b))), true
		}
	case "fmt.Errorf", "errors.New":
		tag := x.fresh("errtag", "Int")
		ref := x.newRef(st, "err")
		x.assume("true", sx("not", sx("=", tag, "0")))
		// a freshly created error is distinct from every sentinel error value
		return IfaceV{tag, ref}, true
	case "fmt.Sprintf", "fmt.Sprint", "fmt.Sprintln":
		x.declSort("Str")
		return Sc{T: x.fresh("sprintf", "Str"), S: "Str"}, true
	case "go.etcd.io/bbolt/internal/common.Verify", "common.Verify":
		// assertion-only closure (F obligation: no write effect); skipped
		return TupleV{}, true
	case "common.Assert":
		// Assert(cond, msg, ...) panics when cond is false
		if c, ok := args[0].(Sc); ok {
			x.oblige(x.oblName(fr, "nopanic", ins.Pos(), "Assert"), "nopanic", reach, c.T, nil, x.posText(ins.Pos())+": common.Assert condition holds")
			x.assume(reach, c.T)
		}
		return TupleV{}, true
	case "sync/atomic.LoadInt64", "sync/atomic.AddInt64":
		p, ok := args[0].(Sc)
		if ok && p.Loc != nil {
			cur := x.load(st, p.Loc, types.Typ[types.Int64]).(Sc)
			if key == "sync/atomic.LoadInt64" {
				return cur, true
			}
			nv := I(wrapTerm(types.Typ[types.Int64], sx("+", cur.T, args[1].(Sc).T), true))
			x.store(st, p.Loc, types.Typ[types.Int64], nv)
			return nv, true
		}
	case "runtime.Gosched", "runtime.KeepAlive", "runtime.SetFinalizer", "runtime.GC":
		return TupleV{}, true
	case "sort.Search":
		return x.sortSearch(fr, st, reach, args, ins)
	case "sort.Sort":
		if x.sortSort(fr, st, reach, ins) {
			return TupleV{}, true
		}
	}
	if strings.HasPrefix(key, "time.") || strings.HasPrefix(key, "fmt.") || strings.HasPrefix(key, "strings.") || strings.HasPrefix(key, "strconv.") {
		return x.havocValTyped(reach, rt, "lib"), true
	}
	return nil, false
}

func (x *Exec) havocValTyped(reach string, rt types.Type, p string) Val {
	v := x.havocVal(rt, p)
	return v
}

// sort.Search(n, f): least i in [0,n] with f(i) true, assuming f is monotone on [0,n).
// The closure is evaluated as a pure predicate at symbolic indices through a fresh uninterpreted
// function tied to the closure body at the indices the proof needs (result, result-1) plus a
// universally quantified characterisation obtained by inlining the body under a quantifier is not
// expressible; instead we expose: 0<=r<=n, (r<n => f(r)), (r>0 => !f(r-1)), and the monotonicity
// obligation is discharged from the caller's contract (pre@call) when a 'searchmono' fact is given.
func (x *Exec) sortSearch(fr *Frame, st *State, reach string, args []Val, ins ssa.Instruction) (Val, bool) {
	n, ok := args[0].(Sc)
	fv, ok2 := args[1].(Sc)
	if !ok || !ok2 || fv.Fn == nil {
		return nil, false
	}
	r := x.fresh("search", "Int")
	x.assume(reach, sx("and", sx("<=", "0", r), sx("<=", r, n.T)))
	// f(r) under r<n
	evalAt := func(idx string, g string) string {
		s2 := st.clone()
		v := x.inlineCall(fr, s2, g, fv.Fn, []Val{I(idx)}, fv.Clo, types.Typ[types.Bool])
		sc, ok := v.(Sc)
		if !ok {
			return x.fresh("pred", "Bool")
		}
		return sc.T
	}
	g1 := x.define("sg", "Bool", and(reach, sx("<", r, n.T)))
	p1 := evalAt(r, g1)
	x.assume(g1, p1)
	g2 := x.define("sg", "Bool", and(reach, sx(">", r, "0")))
	rm1 := x.define("rm1", "Int", sx("-", r, "1"))
	p2 := evalAt(rm1, g2)
	x.assume(g2, not(p2))
	x.trustedUsed["sort.Search (least index with predicate true; monotone predicate assumed: A-lib)"] = true
	return I(r), true
}

// sortSort models sort.Sort(S(s)) for a slice s of an integer type whose sort.Interface implementation is
// the ascending one (Less(i,j) = s[i] < s[j]; the Less methods of the two types used by bbolt, freelist.txIDx
// and common.Pgids, are under contract themselves): afterwards the segment is an ascending permutation of
// what it was (explicit permutation functions), everything else is unchanged. Trusted: A-lib.
func (x *Exec) sortSort(fr *Frame, st *State, reach string, ins ssa.Instruction) bool {
	ci, ok := ins.(ssa.CallInstruction)
	if !ok {
		return false
	}
	mi, ok := ci.Common().Args[0].(*ssa.MakeInterface)
	if !ok {
		return false
	}
	tk := typeKey(mi.X.Type())
	if tk != "freelist.txIDx" && tk != "common.Pgids" && tk != "common.Pages" {
		return false
	}
	sl, ok := mi.X.Type().Underlying().(*types.Slice)
	if !ok || (kindOf(sl.Elem()) != KInt && kindOf(sl.Elem()) != KPtr) {
		return false
	}
	ordered := kindOf(sl.Elem()) == KInt // common.Pages (pointers ordered by page id): only "permutation" is modelled
	sv, ok := x.value(fr, mi.X).(SliceV)
	if !ok {
		return false
	}
	name := "E$" + typeKey(sl.Elem())
	h := x.heap(st, name, arr2Sort("Int"))
	oldRow := x.define("sortold", "(Array Int Int)", sx("select", h, sv.Arr))
	row := x.fresh("sortrow", "(Array Int Int)")
	el := x.elFn("Int")
	x.n++
	pi, inv := fmt.Sprintf("sortperm!%d", x.n), fmt.Sprintf("sortinv!%d", x.n)
	x.declareFun(pi, "(Int) Int")
	x.declareFun(inv, "(Int) Int")
	rng := func(v string) string { return sx("and", sx("<=", "0", v), sx("<", v, sv.Len)) }
	// outside the segment: unchanged
	x.emit(fmt.Sprintf("(assert (forall ((j Int)) (! (=> (or (< j %s) (>= j (+ %s %s))) (= (select %s j) (select %s j))) :pattern ((select %s j)))))", sv.Off, sv.Off, sv.Len, row, oldRow, row))
	// ascending
	if ordered {
		x.emit(fmt.Sprintf("(assert (forall ((i Int) (j Int)) (! (=> (and (<= 0 i) (<= i j) (< j %s)) (<= (%s %s %s i) (%s %s %s j))) :pattern ((%s %s %s i) (%s %s %s j)))))", sv.Len, el, row, sv.Off, el, row, sv.Off, el, row, sv.Off, el, row, sv.Off))
	}
	// permutation: new[i] = old[perm(i)], old[j] = new[inv(j)], perm and inv are mutually inverse on the range
	x.emit(fmt.Sprintf("(assert (forall ((i Int)) (! (=> %s (and %s (= (%s %s %s i) (%s %s %s (%s i))) (= (%s (%s i)) i))) :pattern ((%s %s %s i)) :pattern ((%s i)))))", rng("i"), rng(sx(pi, "i")), el, row, sv.Off, el, oldRow, sv.Off, pi, inv, pi, el, row, sv.Off, pi))
	x.emit(fmt.Sprintf("(assert (forall ((j Int)) (! (=> %s (and %s (= (%s %s %s (%s j)) (%s %s %s j)) (= (%s (%s j)) j))) :pattern ((%s %s %s j)) :pattern ((%s j)))))", rng("j"), rng(sx(inv, "j")), el, row, sv.Off, inv, el, oldRow, sv.Off, pi, inv, el, oldRow, sv.Off, inv))
	x.setHeap(st, name, arr2Sort("Int"), sx("store", h, sv.Arr, row))
	if ordered {
		x.trustedUsed["sort.Sort on "+tk+" = ascending permutation of the slice (A-lib; the type's Less method is under contract)"] = true
	} else {
		x.trustedUsed["sort.Sort on "+tk+" = a permutation of the slice (A-lib; the order is not modelled)"] = true
	}
	return true
}

// libEffects: write effects of modelled library functions
func libEffects(ef *Effects, callee *ssa.Function, cc *ssa.CallCommon) (map[string]bool, bool) {
	key := funcKey(callee)
	out := map[string]bool{}
	switch key {
	case "sort.Sort", "sort.Stable":
		// sort.Sort(x): x is an interface wrapping a slice type; elements of that slice type
		if mi, ok := cc.Args[0].(*ssa.MakeInterface); ok {
			if sl, ok := mi.X.Type().Underlying().(*types.Slice); ok {
				ef.typeComps("E$"+typeKey(sl.Elem()), sl.Elem(), out)
				return out, true
			}
		}
		out["*"] = true
		return out, true
	case "sort.Slice", "sort.SliceStable":
		if mi, ok := cc.Args[0].(*ssa.MakeInterface); ok {
			if sl, ok := mi.X.Type().Underlying().(*types.Slice); ok {
				ef.typeComps("E$"+typeKey(sl.Elem()), sl.Elem(), out)
				return out, true
			}
		}
		out["*"] = true
		return out, true
	case "sync/atomic.AddInt64", "sync/atomic.StoreInt64":
		ef.storeTargets(nil, cc.Args[0], out)
		return out, true
	case "common.Verify":
		return out, true
	}
	return nil, false
}
