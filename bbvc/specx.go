package main

// Translation of contract expressions into SMT terms in a given program state.

import (
	"fmt"
	"go/constant"
	"go/types"
	"strings"

	"golang.org/x/tools/go/ssa"
)

// AddrV is a struct value located at an address (not loaded).
type AddrV struct{ Addr string }

type envEntry struct {
	v   Val
	t   types.Type
	loc *Loc // variable living in a memory cell (captured / address-taken): its value is state-dependent
}

type SpecCtx struct {
	x     *Exec
	cur   *State
	old   *State
	env   map[string]envEntry
	pkg   string
	guard string
	fr    *Frame
	qn    *int
	depth int
	pol   int               // +1: goal position, -1: negated, 0: unknown/assumed
	wit   map[string]Expr   // existential witnesses (only used at polarity +1)
	witEnv map[string]envEntry // names visible to witness expressions
	witCur *State
	lentry *State // state at the entry of the loop whose invariant is being evaluated (entry(e))
}

func (c *SpecCtx) flip() *SpecCtx {
	n := *c
	n.pol = -c.pol
	return &n
}
func (c *SpecCtx) nopol() *SpecCtx {
	n := *c
	n.pol = 0
	return &n
}

type specErr struct{ msg string }

func (c *SpecCtx) fail(f string, a ...interface{}) {
	panic(specErr{fmt.Sprintf(f, a...)})
}

func (c *SpecCtx) with(name string, v Val, t types.Type) *SpecCtx {
	n := *c
	n.env = make(map[string]envEntry, len(c.env)+1)
	for k, e := range c.env {
		n.env[k] = e
	}
	n.env[name] = envEntry{v: v, t: t}
	return &n
}

func (c *SpecCtx) inOld() *SpecCtx {
	n := *c
	n.cur = c.old
	return &n
}

var tBool = types.Typ[types.Bool]
var tInt = types.Typ[types.UntypedInt]

// formula evaluates a boolean contract expression; errors are reported as engine faults.
func (c *SpecCtx) formula(e Expr) (f string, err error) {
	defer func() {
		if r := recover(); r != nil {
			if se, ok := r.(specErr); ok {
				err = fmt.Errorf("%s", se.msg)
				return
			}
			panic(r)
		}
	}()
	v, _ := c.eval(e)
	sc, ok := v.(Sc)
	if !ok || sc.S != "Bool" {
		return "", fmt.Errorf("boolean expression expected")
	}
	return sc.T, nil
}

func (c *SpecCtx) term(e Expr) (v Val, t types.Type, err error) {
	defer func() {
		if r := recover(); r != nil {
			if se, ok := r.(specErr); ok {
				err = fmt.Errorf("%s", se.msg)
				return
			}
			panic(r)
		}
	}()
	v, t = c.eval(e)
	return
}

func (c *SpecCtx) eval(e Expr) (Val, types.Type) {
	x := c.x
	switch n := e.(type) {
	case *EInt:
		s := n.V
		if strings.HasPrefix(s, "0x") || strings.HasPrefix(s, "0X") {
			v := constant.MakeFromLiteral(s, 5 /*token.INT*/, 0)
			s = v.ExactString()
		}
		return I(s), tInt
	case *EBool:
		if n.V {
			return B("true"), tBool
		}
		return B("false"), tBool
	case *EStr:
		return Sc{T: x.strLit(n.V), S: "Str"}, types.Typ[types.String]
	case *ENil:
		return I("0"), types.Typ[types.UntypedNil]
	case *EIdent:
		return c.ident(n.Name)
	case *EUn:
		cc := c
		if n.Op == "!" {
			cc = c.flip()
		}
		v, t := cc.eval(n.X)
		sc, ok := v.(Sc)
		if !ok {
			c.fail("unary %s on non-scalar", n.Op)
		}
		if n.Op == "!" {
			return B(not(sc.T)), tBool
		}
		return I(sx("-", sc.T)), t
	case *EBin:
		return c.binary(n)
	case *ECond:
		cv, _ := c.nopol().eval(n.C)
		a, ta := c.eval(n.A)
		b, _ := c.eval(n.B)
		return x.mergeVal(cv.(Sc).T, a, b), ta
	case *ELet:
		v, t := c.eval(n.Val)
		return c.with(n.Name, v, t).eval(n.Body)
	case *EQuant:
		return c.quant(n)
	case *ESel:
		return c.sel(n)
	case *EIdx:
		return c.index(n)
	case *ECall:
		return c.call(n)
	case *ESlice:
		v, t := c.eval(n.X)
		sv, ok := v.(SliceV)
		if !ok {
			c.fail("slice expression on non-slice")
		}
		lo := "0"
		if n.Lo != nil {
			l, _ := c.eval(n.Lo)
			lo = l.(Sc).T
		}
		hi := sv.Len
		if n.Hi != nil {
			h, _ := c.eval(n.Hi)
			hi = h.(Sc).T
		}
		return SliceV{sv.Arr, sx("+", sv.Off, lo), sx("-", hi, lo), sx("-", sv.Cap, lo)}, t
	}
	c.fail("unsupported expression %T", e)
	return nil, nil
}

func (c *SpecCtx) ident(name string) (Val, types.Type) {
	x := c.x
	if e, ok := c.env[name]; ok {
		if e.loc != nil {
			return x.load(c.cur, e.loc, e.t), e.t
		}
		return e.v, e.t
	}
	if g, ok := x.eng.ghostVars[name]; ok {
		t, err := x.eng.resolveSpecType(g.Pkg, g.Type)
		if err != nil {
			c.fail("ghost %s: %v", name, err)
		}
		sort := specSort(t)
		return Sc{T: x.heap(c.cur, "G$"+name, sort), S: sort}, t.gt
	}
	// frame-local names (loop invariants / asserts): resolved by the caller into env
	// package-level constants of the contract's package
	if tp := x.eng.tpkgs[c.pkg]; tp != nil {
		if o := tp.Scope().Lookup(name); o != nil {
			if v, t, ok := c.pkgObject(o); ok {
				return v, t
			}
		}
	}
	c.fail("unknown identifier %q", name)
	return nil, nil
}

func (c *SpecCtx) pkgObject(o types.Object) (Val, types.Type, bool) {
	x := c.x
	switch ob := o.(type) {
	case *types.Const:
		switch ob.Val().Kind() {
		case constant.Int:
			s := ob.Val().ExactString()
			if strings.HasPrefix(s, "-") {
				s = "(- " + s[1:] + ")"
			}
			return I(s), ob.Type(), true
		case constant.Bool:
			if constant.BoolVal(ob.Val()) {
				return B("true"), tBool, true
			}
			return B("false"), tBool, true
		case constant.String:
			return Sc{T: x.strLit(constant.StringVal(ob.Val())), S: "Str"}, ob.Type(), true
		}
	case *types.Var:
		// package-level variable: value in the current state
		name := "g$" + sanitize(ob.Pkg().Name()+"."+ob.Name())
		x.declare(name, "Int")
		if isSentinel(ob) {
			return x.sentinel(ob), ob.Type(), true
		}
		if kindOf(ob.Type()) == KStruct {
			return AddrV{name}, ob.Type(), true
		}
		loc := &Loc{Kind: LCell, Base: "GL$" + sanitize(ob.Pkg().Name()+"."+ob.Name()), Ref: name}
		v := x.load(c.cur, loc, ob.Type())
		x.globalFacts(ob, v)
		return v, ob.Type(), true
	}
	return nil, nil, false
}

// sentinel error variables (initialised once with errors.New and never assigned: F obligation
// "sentinels-immutable") are modelled as constants: non-nil and pairwise distinct.
func isSentinel(ob *types.Var) bool {
	if kindOf(ob.Type()) != KIface {
		return false
	}
	n := ob.Name()
	return strings.HasPrefix(n, "Err") || strings.HasPrefix(n, "err") || n == "trySolo" || n == "EOF"
}

func (x *Exec) sentinel(ob *types.Var) IfaceV {
	base := "sent$" + sanitize(ob.Pkg().Name()+"."+ob.Name())
	if !x.declared[base+".tag"] {
		x.declare(base+".tag", "Int")
		x.declare(base+".ref", "Int")
		id := len(x.tagIDs) + 1000
		x.tagIDs[base] = id
		x.emitGlobal(fmt.Sprintf("(assert (and (not (= %s.tag 0)) (= %s.ref %d)))", base, base, id))
	}
	return IfaceV{base + ".tag", base + ".ref"}
}

func (x *Exec) globalFacts(ob *types.Var, v Val) {}

func (c *SpecCtx) quant(n *EQuant) (Val, types.Type) {
	x := c.x
	// existential in goal position (or universal in negated position) with a registered witness:
	// prove the instance instead (sound: phi(w) implies exists s. phi(s))
	if ((!n.All && c.pol > 0) || (n.All && c.pol < 0)) && c.wit != nil {
		allHave := true
		for _, qv := range n.Vars {
			if _, ok := c.wit[qv.Name]; !ok {
				allHave = false
			}
		}
		if allHave {
			if v, t, ok := c.tryWitness(n); ok {
				return v, t
			}
		}
		if false {
			cc := c
			for _, qv := range n.Vars {
				wc := *c
				wc.env = map[string]envEntry{}
				for k, e := range c.witEnv {
					wc.env[k] = e
				}
				for k, e := range c.env {
					wc.env[k] = e
				}
				wc.pol = 0
				wv, wt := wc.eval(c.wit[qv.Name])
				cc = cc.with(qv.Name, wv, wt)
			}
			return cc.eval(n.Body)
		}
	}
	cc := c
	var binders []string
	var guards []string
	for _, qv := range n.Vars {
		t, err := x.eng.resolveSpecType(c.pkg, qv.Type)
		if err != nil {
			c.fail("quantifier: %v", err)
		}
		*c.qn++
		nm := fmt.Sprintf("%s$q%d", qv.Name, *c.qn)
		sort := specSort(t)
		if sort == "Str" {
			x.declSort("Str")
		}
		binders = append(binders, fmt.Sprintf("(%s %s)", nm, sort))
		cc = cc.with(qv.Name, Sc{T: nm, S: sort}, t.gt)
		if cc.wit != nil {
			we := make(map[string]envEntry, len(cc.witEnv)+1)
			for k, e := range cc.witEnv {
				we[k] = e
			}
			we[qv.Name] = envEntry{v: Sc{T: nm, S: sort}, t: t.gt}
			cc.witEnv = we
		}
		_ = guards
	}
	bv, _ := cc.eval(n.Body)
	body, ok := bv.(Sc)
	if !ok || body.S != "Bool" {
		c.fail("quantifier body must be boolean")
	}
	q := "exists"
	if n.All {
		q = "forall"
	}
	if len(n.Trig) > 0 {
		var pats []string
		for _, set := range n.Trig {
			var ts []string
			for _, te := range set {
				// has(m, k) as a trigger term: the membership select itself (the value of has() is a conjunction)
				if hc, ok := te.(*ECall); ok && hc.Fun == "has" && len(hc.Args) == 2 {
					mv, mt := cc.eval(hc.Args[0])
					kv, _ := cc.eval(hc.Args[1])
					if mtt, ok := mt.Underlying().(*types.Map); ok {
						dom, _, _, _, _ := x.mapHeaps(cc.cur, mtt)
						ts = append(ts, sx("select", sx("select", dom, mv.(Sc).T), kv.(Sc).T))
						continue
					}
				}
				tv, _ := cc.eval(te)
				switch v := tv.(type) {
				case Sc:
					ts = append(ts, v.T)
				case SliceV:
					ts = append(ts, v.Arr)
				case AddrV:
					ts = append(ts, v.Addr)
				case IfaceV:
					ts = append(ts, v.Ref)
				default:
					c.fail("unsupported trigger term")
				}
			}
			pats = append(pats, ":pattern ("+strings.Join(ts, " ")+")")
		}
		return B(fmt.Sprintf("(%s (%s) (! %s %s))", q, strings.Join(binders, " "), body.T, strings.Join(pats, " "))), tBool
	}
	return B(fmt.Sprintf("(%s (%s) %s)", q, strings.Join(binders, " "), body.T)), tBool
}

type SpecType struct {
	gt   types.Type
	sort string // explicit SMT sort for spec-only types (sets, maps)
}

func specSort(t SpecType) string {
	if t.sort != "" {
		return t.sort
	}
	s := sortOfKind(kindOf(t.gt))
	if s == "" {
		return "Int"
	}
	return s
}

// resolveSpecType: Go types plus set[T] / mapto[K,V] / mathint.
func (e *Engine) resolveSpecType(pkg, s string) (SpecType, error) {
	s = strings.TrimSpace(s)
	if strings.HasPrefix(s, "set[") && strings.HasSuffix(s, "]") {
		inner, err := e.resolveSpecType(pkg, s[4:len(s)-1])
		if err != nil {
			return SpecType{}, err
		}
		return SpecType{gt: types.Typ[types.UntypedNil], sort: "(Array " + specSort(inner) + " Bool)"}, nil
	}
	if strings.HasPrefix(s, "mapto[") && strings.HasSuffix(s, "]") {
		parts := strings.SplitN(s[6:len(s)-1], ",", 2)
		if len(parts) != 2 {
			return SpecType{}, fmt.Errorf("mapto[K,V]")
		}
		k, err := e.resolveSpecType(pkg, parts[0])
		if err != nil {
			return SpecType{}, err
		}
		v, err := e.resolveSpecType(pkg, parts[1])
		if err != nil {
			return SpecType{}, err
		}
		return SpecType{gt: types.Typ[types.UntypedNil], sort: "(Array " + specSort(k) + " " + specSort(v) + ")"}, nil
	}
	t, err := e.resolveType(pkg, s)
	if err != nil {
		return SpecType{}, err
	}
	return SpecType{gt: t}, nil
}

func (c *SpecCtx) binary(n *EBin) (Val, types.Type) {
	x := c.x
	switch n.Op {
	case "&&", "||", "==>", "<==>":
		lc, rc := c, c
		if n.Op == "==>" {
			lc = c.flip()
		}
		if n.Op == "<==>" {
			lc, rc = c.nopol(), c.nopol()
		}
		l, _ := lc.eval(n.L)
		r, _ := rc.eval(n.R)
		ls, ok1 := l.(Sc)
		rs, ok2 := r.(Sc)
		if !ok1 || !ok2 || ls.S != "Bool" || rs.S != "Bool" {
			c.fail("boolean operands expected for %s", n.Op)
		}
		switch n.Op {
		case "&&":
			return B(and(ls.T, rs.T)), tBool
		case "||":
			return B(or(ls.T, rs.T)), tBool
		case "==>":
			return B(implies(ls.T, rs.T)), tBool
		default:
			return B(sx("=", ls.T, rs.T)), tBool
		}
	case "==", "!=":
		l, lt := c.nopol().eval(n.L)
		r, _ := c.nopol().eval(n.R)
		eq := c.specEqual(l, r, lt)
		if n.Op == "!=" {
			return B(not(eq)), tBool
		}
		return B(eq), tBool
	}
	l, lt := c.eval(n.L)
	r, rt := c.eval(n.R)
	ls, ok1 := l.(Sc)
	rs, ok2 := r.(Sc)
	if !ok1 || !ok2 {
		c.fail("scalar operands expected for %s", n.Op)
	}
	rtype := lt
	if b, ok := lt.(*types.Basic); ok && b.Info()&types.IsUntyped != 0 {
		rtype = rt
	}
	switch n.Op {
	case "<", "<=", ">", ">=":
		return B(sx(n.Op, ls.T, rs.T)), tBool
	case "+", "-", "*":
		return I(sx(n.Op, ls.T, rs.T)), rtype
	case "/":
		return I(sx("div", ls.T, rs.T)), rtype // spec division: floor division (operands are non-negative in all uses)
	case "%":
		return I(sx("mod", ls.T, rs.T)), rtype
	case "<<":
		return I(sx("*", ls.T, x.pow2(rs.T))), rtype
	case ">>":
		return I(sx("div", ls.T, x.pow2(rs.T))), rtype
	case "&":
		return x.uninterpBit("bvand", types.Typ[types.Uint64], ls.T, rs.T), rtype
	case "|":
		return x.uninterpBit("bvor", types.Typ[types.Uint64], ls.T, rs.T), rtype
	}
	c.fail("unsupported operator %s", n.Op)
	return nil, nil
}

func (c *SpecCtx) specEqual(l, r Val, t types.Type) string {
	switch lv := l.(type) {
	case SliceV:
		if rv, ok := r.(SliceV); ok {
			return sx("and", sx("=", lv.Arr, rv.Arr), sx("=", lv.Off, rv.Off), sx("=", lv.Len, rv.Len), sx("=", lv.Cap, rv.Cap))
		}
		return sx("=", lv.Arr, "0")
	case AddrV:
		if rv, ok := r.(AddrV); ok {
			return sx("=", lv.Addr, rv.Addr)
		}
	}
	if _, ok := r.(SliceV); ok {
		return c.specEqual(r, l, t)
	}
	return c.x.equal(l, r, t)
}

// field selection
func (c *SpecCtx) sel(n *ESel) (Val, types.Type) {
	x := c.x
	// package-qualified name?
	if id, ok := n.X.(*EIdent); ok {
		if _, shadow := c.env[id.Name]; !shadow {
			if tp := x.eng.tpkgs[id.Name]; tp != nil {
				if o := tp.Scope().Lookup(n.Name); o != nil {
					if v, t, ok := c.pkgObject(o); ok {
						return v, t
					}
				}
				c.fail("unknown package member %s.%s", id.Name, n.Name)
			}
		}
	}
	v, t := c.eval(n.X)
	return c.field(v, t, n.Name)
}

func (c *SpecCtx) field(v Val, t types.Type, name string) (Val, types.Type) {
	x := c.x
	// struct type (through at most one pointer)
	st := t
	isPtr := false
	if p, ok := t.Underlying().(*types.Pointer); ok {
		st = p.Elem()
		isPtr = true
	}
	s, ok := st.Underlying().(*types.Struct)
	if !ok {
		c.fail("field %s of non-struct type %s", name, t)
	}
	// address of the struct, if located
	addr := ""
	switch vv := v.(type) {
	case Sc:
		if isPtr {
			addr = vv.T
		}
	case AddrV:
		addr = vv.Addr
	}
	// ghost field?
	if g, ok := x.eng.ghostFlds[typeKey(st)+"."+name]; ok {
		if addr == "" {
			c.fail("ghost field %s on a struct value", name)
		}
		gt, err := x.eng.resolveSpecType(g.Pkg, g.Type)
		if err != nil {
			c.fail("ghost field %s: %v", name, err)
		}
		sort := specSort(gt)
		h := x.heap(c.cur, "H$"+typeKey(st)+"$"+name, arrSort(sort))
		return Sc{T: sx("select", h, addr), S: sort}, gt.gt
	}
	// direct field
	for i := 0; i < s.NumFields(); i++ {
		f := s.Field(i)
		if f.Name() != name {
			continue
		}
		if addr != "" {
			loc := &Loc{Kind: LField, Base: fieldHeap(st, f), Ref: addr}
			if kindOf(f.Type()) == KStruct {
				return AddrV{x.structAddr(loc)}, f.Type()
			}
			return x.load(c.cur, loc, f.Type()), f.Type()
		}
		sv, ok := v.(StructV)
		if !ok {
			c.fail("field %s: struct value expected", name)
		}
		return sv.F[i], f.Type()
	}
	// promoted through embedded fields
	for i := 0; i < s.NumFields(); i++ {
		f := s.Field(i)
		if !f.Embedded() {
			continue
		}
		et := f.Type()
		base := et
		if p, ok := et.Underlying().(*types.Pointer); ok {
			base = p.Elem()
		}
		if _, ok := base.Underlying().(*types.Struct); !ok {
			continue
		}
		if !hasFieldDeep(x.eng, base, name) {
			continue
		}
		ev, evt := c.field(v, t, f.Name())
		return c.field(ev, evt, name)
	}
	c.fail("no field %s in %s", name, st)
	return nil, nil
}

func hasFieldDeep(e *Engine, t types.Type, name string) bool {
	s, ok := t.Underlying().(*types.Struct)
	if !ok {
		return false
	}
	if _, ok := e.ghostFlds[typeKey(t)+"."+name]; ok {
		return true
	}
	for i := 0; i < s.NumFields(); i++ {
		f := s.Field(i)
		if f.Name() == name {
			return true
		}
		if f.Embedded() {
			bt := f.Type()
			if p, ok := bt.Underlying().(*types.Pointer); ok {
				bt = p.Elem()
			}
			if hasFieldDeep(e, bt, name) {
				return true
			}
		}
	}
	return false
}

func (c *SpecCtx) index(n *EIdx) (Val, types.Type) {
	x := c.x
	v, t := c.eval(n.X)
	iv, _ := c.eval(n.I)
	isc, ok := iv.(Sc)
	if !ok {
		c.fail("index must be scalar")
	}
	switch u := t.Underlying().(type) {
	case *types.Slice:
		sv, ok := v.(SliceV)
		if !ok {
			c.fail("slice value expected")
		}
		et := u.Elem()
		loc := &Loc{Kind: LElem, Base: "E$" + typeKey(et), Arr: sv.Arr, Idx: sx("+", sv.Off, isc.T), Off: sv.Off, Rel: isc.T}
		if kindOf(et) == KStruct {
			return AddrV{x.structAddr(loc)}, et
		}
		return x.load(c.cur, loc, et), et
	case *types.Map:
		m := v.(Sc).T
		_, val, _, _, vs := x.mapHeaps(c.cur, u)
		if vs == "" {
			c.fail("map has no scalar values; use has(m,k)")
		}
		return Sc{T: sx("select", sx("select", val, m), isc.T), S: vs}, u.Elem()
	}
	// spec-level sets / maps: (select a i)
	if sc, ok := v.(Sc); ok && strings.HasPrefix(sc.S, "(Array ") {
		rs := arrayRange(sc.S)
		return Sc{T: sx("select", sc.T, isc.T), S: rs}, rangeType(rs)
	}
	c.fail("cannot index %s", t)
	return nil, nil
}

func rangeType(sort string) types.Type {
	switch sort {
	case "Bool":
		return tBool
	case "Int":
		return tInt
	case "Str":
		return types.Typ[types.String]
	}
	return types.Typ[types.UntypedNil]
}

// arrayRange returns the range sort of "(Array D R)".
func arrayRange(s string) string {
	inner := strings.TrimSuffix(strings.TrimPrefix(s, "(Array "), ")")
	// split domain / range at top-level space
	depth := 0
	for i, ch := range inner {
		switch ch {
		case '(':
			depth++
		case ')':
			depth--
		case ' ':
			if depth == 0 {
				return inner[i+1:]
			}
		}
	}
	return "Int"
}

func (c *SpecCtx) call(n *ECall) (Val, types.Type) {
	x := c.x
	arg := func(i int) (Val, types.Type) { return c.eval(n.Args[i]) }
	switch n.Fun {
	case "old":
		if c.old == nil {
			c.fail("old() not available here")
		}
		return c.inOld().eval(n.Args[0])
	case "len":
		v, t := arg(0)
		switch vv := v.(type) {
		case SliceV:
			return I(vv.Len), types.Typ[types.Int]
		case Sc:
			if vv.S == "Str" {
				return I(sx("strlen", vv.T)), types.Typ[types.Int]
			}
			if mt, ok := t.Underlying().(*types.Map); ok {
				_, _, card, _, _ := x.mapHeaps(c.cur, mt)
				return I(sx("select", card, vv.T)), types.Typ[types.Int]
			}
		}
		c.fail("len of %s", t)
	case "cap":
		v, _ := arg(0)
		if sv, ok := v.(SliceV); ok {
			return I(sv.Cap), types.Typ[types.Int]
		}
		c.fail("cap of non-slice")
	case "has":
		v, t := arg(0)
		k, _ := arg(1)
		if mt, ok := t.Underlying().(*types.Map); ok {
			dom, _, _, _, _ := x.mapHeaps(c.cur, mt)
			m := v.(Sc).T
			return B(sx("and", sx("not", sx("=", m, "0")), sx("select", sx("select", dom, m), k.(Sc).T))), tBool
		}
		if sc, ok := v.(Sc); ok && strings.HasPrefix(sc.S, "(Array ") {
			return B(sx("select", sc.T, k.(Sc).T)), tBool
		}
		c.fail("has() on %s", t)
	case "visited": // visited(k [, n]): key k was already produced by the n-th (default 0) map-range loop of this function
		k, _ := arg(0)
		want := 0
		if len(n.Args) > 1 {
			if lit, ok := n.Args[1].(*EInt); ok {
				fmt.Sscanf(lit.V, "%d", &want)
			}
		}
		fn := x.fn
		if c.fr != nil && c.fr.fn != nil {
			fn = c.fr.fn
		}
		cnt := 0
		for _, b := range fn.Blocks {
			for _, ins := range b.Instrs {
				r, ok := ins.(*ssa.Range)
				if !ok {
					continue
				}
				mt, ok := r.X.Type().Underlying().(*types.Map)
				if !ok {
					continue
				}
				if cnt == want {
					ks, _ := mapSorts(mt)
					if ks == "" {
						ks = "Int"
					}
					sort := fmt.Sprintf("(Array %s Bool)", ks)
					h := x.heap(c.cur, "IT$"+sanitize(funcKey(fn))+"$"+r.Name(), sort)
					return B(sx("select", h, k.(Sc).T)), tBool
				}
				cnt++
			}
		}
		c.fail("visited(): function has no map-range loop #%d", want)
	case "arrayof": // identity of the backing array of a slice
		v, _ := arg(0)
		return I(v.(SliceV).Arr), tInt
	case "offof":
		v, _ := arg(0)
		return I(v.(SliceV).Off), tInt
	case "isnil":
		v, t := arg(0)
		return B(c.specEqual(v, I("0"), t)), tBool
	case "typeis": // typeis(x, "pkg.T") dynamic type test on interface values
		v, _ := arg(0)
		iv, ok := v.(IfaceV)
		if !ok {
			c.fail("typeis on non-interface")
		}
		s, ok := n.Args[1].(*EStr)
		if !ok {
			c.fail("typeis(x, \"type\")")
		}
		t, err := x.eng.resolveType(c.pkg, s.V)
		if err != nil {
			c.fail("typeis: %v", err)
		}
		return B(sx("=", iv.Tag, x.typeTag(t))), tBool
	case "ifaceref":
		v, _ := arg(0)
		iv, ok := v.(IfaceV)
		if !ok {
			c.fail("ifaceref on non-interface")
		}
		return I(iv.Ref), tInt
	case "bytesval":
		v, _ := arg(0)
		sv, ok := v.(SliceV)
		if !ok {
			c.fail("bytesval on non-slice")
		}
		return Sc{T: x.bytesVal(c.cur, sv), S: "Str"}, types.Typ[types.String]
	case "cmp": // abstract total order on byte strings
		a, _ := arg(0)
		b, _ := arg(1)
		return I(x.strCmp(c.strOf(a), c.strOf(b))), tInt
	case "min", "max":
		a, t := arg(0)
		b, _ := arg(1)
		op := "<="
		if n.Fun == "max" {
			op = ">="
		}
		return I(ite(sx(op, a.(Sc).T, b.(Sc).T), a.(Sc).T, b.(Sc).T)), t
	case "wrapu64":
		a, _ := arg(0)
		return I(wrapTerm(types.Typ[types.Uint64], a.(Sc).T, false)), types.Typ[types.Uint64]
	case "callstotal": // callstotal("funckey"): number of calls of a function under contract, over all receivers
		ks, ok := n.Args[0].(*EStr)
		if !ok {
			c.fail("callstotal(\"funckey\")")
		}
		key, err := x.eng.resolveKey(normKey(c.pkg, ks.V))
		if err != nil {
			c.fail("callstotal: %v", err)
		}
		if x.eng.contracts[key] == nil {
			c.fail("callstotal: %s has no contract", key)
		}
		return I(x.heap(c.cur, callCounter(key)+"$argtotal", "Int")), tInt
	case "calls": // calls("funckey", receiver): ghost counter of calls to a function under contract
		ks, ok := n.Args[0].(*EStr)
		if !ok {
			c.fail("calls(\"funckey\", receiver)")
		}
		key, err := x.eng.resolveKey(normKey(c.pkg, ks.V))
		if err != nil {
			c.fail("calls: %v", err)
		}
		if x.eng.contracts[key] == nil {
			c.fail("calls: %s has no contract", key)
		}
		idx := "0"
		if len(n.Args) > 1 {
			v, _ := arg(1)
			switch vv := v.(type) {
			case Sc:
				idx = vv.T
			case IfaceV:
				idx = vv.Ref
			case AddrV:
				idx = vv.Addr
			}
		}
		h := x.heap(c.cur, callCounter(key), "(Array Int Int)")
		return I(sx("select", h, idx)), tInt
	case "invoked", "cbresult": // higher-order protocol (contracts with 'invokes p')
		id, ok := n.Args[0].(*EIdent)
		if !ok {
			c.fail("%s(param)", n.Fun)
		}
		if e, ok := c.env[n.Fun+"$"+id.Name]; ok {
			return e.v, e.t
		}
		// inside the verified function itself: ghost flags set at the dynamic call
		if n.Fun == "invoked" {
			return B(x.heap(c.cur, "G$invoked$"+id.Name, "Bool")), tBool
		}
		return IfaceV{x.heap(c.cur, "G$cbresult$"+id.Name+".tag", "Int"), x.heap(c.cur, "G$cbresult$"+id.Name+".ref", "Int")}, types.Universe.Lookup("error").Type()
	case "pageat": // pageat(b): the page header overlaid on the first bytes of a byte slice (A-unsafe: (*Page)(unsafe.Pointer(&b[0])))
		v, _ := arg(0)
		sv, ok := v.(SliceV)
		if !ok {
			c.fail("pageat(byteslice)")
		}
		x.declEptr()
		pt, err := x.eng.resolveType(c.pkg, "*common.Page")
		if err != nil {
			c.fail("pageat: %v", err)
		}
		return I(sx("eptr", sv.Arr, sx("+", sv.Off, "0"))), pt
	case "rawslice": // rawslice(p, off, "pkg.T"): the []T view of raw memory starting off bytes behind pointer p (A-unsafe; see rawMem)
		v, _ := arg(0)
		o, _ := arg(1)
		ts, ok := n.Args[2].(*EStr)
		if !ok {
			c.fail("rawslice(p, off, \"type\")")
		}
		et, err := x.eng.resolveType(c.pkg, ts.V)
		if err != nil {
			c.fail("rawslice: %v", err)
		}
		big := "4611686018427387904"
		return SliceV{Arr: x.rawMem(), Off: x.rawIndex(sx("+", v.(Sc).T, o.(Sc).T), et), Len: big, Cap: big}, types.NewSlice(et)
	case "israw": // israw(s): the slice is a view of raw memory
		v, _ := arg(0)
		return B(sx("=", v.(SliceV).Arr, x.rawMem())), tBool
	case "isobject": // isobject(p): p is the reference of a separately allocated object (not an interior pointer)
		v, _ := arg(0)
		return B(sx(">", v.(Sc).T, "0")), tBool
	case "interior": // interior(p): p points into another object (array element, embedded struct, mapped memory)
		v, _ := arg(0)
		return B(sx("<", v.(Sc).T, "0")), tBool
	case "sent": // sent(ch): number of values sent on a channel so far (ghost log)
		v, _ := arg(0)
		h := x.heap(c.cur, "G$sent", "(Array Int Int)")
		return I(sx("select", h, v.(Sc).T)), tInt
	case "sameheap": // sameheap("T.f"): the whole field heap is unchanged since the old state
		str, ok := n.Args[0].(*EStr)
		if !ok || c.old == nil {
			c.fail("sameheap(\"T.f\") needs a two-state context")
		}
		k := strings.LastIndex(str.V, ".")
		if k < 0 {
			c.fail("sameheap(\"T.f\")")
		}
		t, err := x.eng.resolveType(c.pkg, str.V[:k])
		if err != nil {
			c.fail("sameheap: %v", err)
		}
		mc := &SpecCtx{x: x, cur: c.old, old: c.old, env: map[string]envEntry{}, pkg: c.pkg, qn: c.qn}
		locs, err := x.fieldLocs(mc, t, str.V[k+1:], "")
		if err != nil {
			c.fail("sameheap: %v", err)
		}
		var eqs []string
		for _, l := range locs {
			srt := x.eng.heapSorts[l.heap]
			eqs = append(eqs, sx("=", x.heap(c.cur, l.heap, srt), x.heap(c.old, l.heap, srt)))
		}
		return B(and(eqs...)), tBool
	case "sameobjs": // sameobjs("T.f"): field f of every T object that existed in the old state (also embedded ones) is unchanged
		str, ok := n.Args[0].(*EStr)
		if !ok || c.old == nil {
			c.fail("sameobjs(\"T.f\") needs a two-state context")
		}
		k := strings.LastIndex(str.V, ".")
		if k < 0 {
			c.fail("sameobjs(\"T.f\")")
		}
		t, err := x.eng.resolveType(c.pkg, str.V[:k])
		if err != nil {
			c.fail("sameobjs: %v", err)
		}
		mc := &SpecCtx{x: x, cur: c.old, old: c.old, env: map[string]envEntry{}, pkg: c.pkg, qn: c.qn}
		locs, err := x.fieldLocs(mc, t, str.V[k+1:], "")
		if err != nil {
			c.fail("sameobjs: %v", err)
		}
		x.declRoot()
		var eqs []string
		for _, l := range locs {
			srt := x.eng.heapSorts[l.heap]
			hc, ho := x.heap(c.cur, l.heap, srt), x.heap(c.old, l.heap, srt)
			if hc == ho {
				continue
			}
			*c.qn++
			a := fmt.Sprintf("a$so%d", *c.qn)
			eqs = append(eqs, fmt.Sprintf("(forall ((%s Int)) (! (=> (<= (root %s) %s) (= (select %s %s) (select %s %s))) :pattern ((select %s %s))))", a, a, c.old.alc, hc, a, ho, a, hc, a))
		}
		return B(and(eqs...)), tBool
	case "entry": // entry(e): e evaluated in the state in which the enclosing loop was entered (loop invariants only)
		if c.lentry == nil {
			c.fail("entry(e) is only available in loop invariants")
		}
		ec := *c
		ec.cur = c.lentry
		return ec.eval(n.Args[0])
	case "loopsame": // loopsame(s): slice header and the whole backing array of s are as they were at loop entry
		if c.lentry == nil {
			c.fail("loopsame(s) is only available in loop invariants")
		}
		v, t := arg(0)
		sv, ok := v.(SliceV)
		st, ok2 := t.Underlying().(*types.Slice)
		ec := *c
		ec.cur = c.lentry
		ev, _ := ec.eval(n.Args[0])
		esv, ok3 := ev.(SliceV)
		if !ok || !ok2 || !ok3 {
			c.fail("loopsame(slice)")
		}
		eqs := []string{sx("=", sv.Arr, esv.Arr), sx("=", sv.Off, esv.Off), sx("=", sv.Len, esv.Len)}
		for _, cp := range x.comps(st.Elem()) {
			name := "E$" + typeKey(st.Elem()) + cp.suffix
			srt := arr2Sort(cp.sort)
			eqs = append(eqs, sx("=", sx("select", x.heap(c.cur, name, srt), sv.Arr), sx("select", x.heap(c.lentry, name, srt), esv.Arr)))
		}
		return B(and(eqs...)), tBool
	case "samerow": // samerow(s): the whole backing array of slice s holds the same elements as in the old state
		if c.old == nil {
			c.fail("samerow(s) needs a two-state context")
		}
		v, t := arg(0)
		sv, ok := v.(SliceV)
		st, ok2 := t.Underlying().(*types.Slice)
		if !ok || !ok2 {
			c.fail("samerow(slice)")
		}
		oc := *c
		oc.cur = c.old
		ov, _ := oc.eval(n.Args[0])
		osv, ok := ov.(SliceV)
		if !ok {
			c.fail("samerow(slice)")
		}
		var eqs []string
		for _, cp := range x.comps(st.Elem()) {
			name := "E$" + typeKey(st.Elem()) + cp.suffix
			srt := arr2Sort(cp.sort)
			eqs = append(eqs, sx("=", sx("select", x.heap(c.cur, name, srt), sv.Arr), sx("select", x.heap(c.old, name, srt), osv.Arr)))
		}
		return B(and(eqs...)), tBool
	case "sameelems": // sameelems("T"): the elements of every []T array that existed in the old state are unchanged
		str, ok := n.Args[0].(*EStr)
		if !ok || c.old == nil {
			c.fail("sameelems(\"T\") needs a two-state context")
		}
		t, err := x.eng.resolveType(c.pkg, str.V)
		if err != nil {
			c.fail("sameelems: %v", err)
		}
		var eqs []string
		for _, cp := range x.comps(t) {
			name := "E$" + typeKey(t) + cp.suffix
			srt := arr2Sort(cp.sort)
			hc, ho := x.heap(c.cur, name, srt), x.heap(c.old, name, srt)
			if hc == ho {
				continue
			}
			*c.qn++
			a := fmt.Sprintf("se%d", *c.qn)
			eqs = append(eqs, fmt.Sprintf("(forall ((%s Int)) (! (=> (<= %s %s) (= (select %s %s) (select %s %s))) :pattern ((select %s %s))))", a, a, c.old.alc, hc, a, ho, a, hc, a))
		}
		return B(and(eqs...)), tBool
	case "lastret", "lastretnil": // lastret("funckey", i): result i of the most recent call of a function under contract
		ks, ok := n.Args[0].(*EStr)
		il, ok2 := n.Args[1].(*EInt)
		if !ok || !ok2 {
			c.fail("lastret(\"funckey\", index)")
		}
		key, err := x.eng.resolveKey(normKey(c.pkg, ks.V))
		if err != nil {
			c.fail("lastret: %v", err)
		}
		rn := fmt.Sprintf("%s$argret%s", callCounter(key), il.V)
		if n.Fun == "lastretnil" {
			return B(x.heap(c.cur, rn+".nil", "Bool")), tBool
		}
		sort := "Int"
		var rt types.Type = tInt
		if fn := x.eng.byKey[key]; fn != nil {
			idx := 0
			fmt.Sscanf(il.V, "%d", &idx)
			if idx < fn.Signature.Results().Len() {
				pt := fn.Signature.Results().At(idx).Type()
				switch kindOf(pt) {
				case KBool:
					sort, rt = "Bool", tBool
				case KStr, KSlice:
					sort, rt = "Str", types.Typ[types.String]
				default:
					rt = pt
				}
			}
		}
		if sort == "Str" {
			x.declSort("Str")
		}
		return Sc{T: x.heap(c.cur, rn, sort), S: sort}, rt
	case "lastretarr", "lastretoff", "lastretlen": // header of a slice result of the most recent call
		ks, ok := n.Args[0].(*EStr)
		il, ok2 := n.Args[1].(*EInt)
		if !ok || !ok2 {
			c.fail("%s(\"funckey\", index)", n.Fun)
		}
		key, err := x.eng.resolveKey(normKey(c.pkg, ks.V))
		if err != nil {
			c.fail("%s: %v", n.Fun, err)
		}
		rn := fmt.Sprintf("%s$argret%s.%s", callCounter(key), il.V, strings.TrimPrefix(n.Fun, "lastret"))
		return I(x.heap(c.cur, rn, "Int")), tInt
	case "lastargarr", "lastargoff", "lastarglen": // header of a slice argument of the most recent call (backing array, offset, length)
		ks, ok := n.Args[0].(*EStr)
		il, ok2 := n.Args[1].(*EInt)
		if !ok || !ok2 {
			c.fail("%s(\"funckey\", index)", n.Fun)
		}
		key, err := x.eng.resolveKey(normKey(c.pkg, ks.V))
		if err != nil {
			c.fail("%s: %v", n.Fun, err)
		}
		an := fmt.Sprintf("%s$arg%s.%s", callCounter(key), il.V, strings.TrimPrefix(n.Fun, "lastarg"))
		return I(x.heap(c.cur, an, "Int")), tInt
	case "lastarg", "lastargnil": // lastarg("funckey", i): argument i (receiver = 0) of the most recent call of a function under contract
		ks, ok := n.Args[0].(*EStr)
		il, ok2 := n.Args[1].(*EInt)
		if !ok || !ok2 {
			c.fail("lastarg(\"funckey\", index)")
		}
		key, err := x.eng.resolveKey(normKey(c.pkg, ks.V))
		if err != nil {
			c.fail("lastarg: %v", err)
		}
		an := fmt.Sprintf("%s$arg%s", callCounter(key), il.V)
		if n.Fun == "lastargnil" {
			return B(x.heap(c.cur, an+".nil", "Bool")), tBool
		}
		// sort from the callee's signature
		sort := "Int"
		var rt types.Type = tInt
		if fn := x.eng.byKey[key]; fn != nil {
			idx := 0
			fmt.Sscanf(il.V, "%d", &idx)
			if idx < len(fn.Params) {
				pt := fn.Params[idx].Type()
				switch kindOf(pt) {
				case KBool:
					sort, rt = "Bool", tBool
				case KStr:
					sort, rt = "Str", types.Typ[types.String]
				case KSlice:
					sort, rt = "Str", types.Typ[types.String]
				default:
					rt = pt
				}
			}
		}
		if sort == "Str" {
			x.declSort("Str")
		}
		return Sc{T: x.heap(c.cur, an, sort), S: sort}, rt
	case "pow2":
		a, _ := arg(0)
		return I(x.pow2(a.(Sc).T)), tInt
	case "wrapint":
		a, _ := arg(0)
		t := a.(Sc).T
		return I(sx("ite", sx("and", sx("<=", "(- 9223372036854775808)", t), sx("<=", t, "9223372036854775807")), t, wrapTerm(types.Typ[types.Int], t, false))), types.Typ[types.Int]
	case "allocated": // reference existed in the pre-state
		a, _ := arg(0)
		return B(sx("<=", a.(Sc).T, c.old.alc)), tBool
	case "live": // reference exists in the CURRENT state (allocated() speaks about the pre-state)
		a, _ := arg(0)
		return B(sx("<=", a.(Sc).T, c.cur.alc)), tBool
	case "fresh": // reference allocated by this call
		a, _ := arg(0)
		return B(sx(">", a.(Sc).T, c.old.alc)), tBool
	case "sizeof", "offsetof":
		c.fail("%s is only available in K obligations", n.Fun)
	}
	// pure spec function
	pf := x.eng.pures[c.pkg+"."+n.Fun]
	if pf == nil {
		pf = x.eng.pures[n.Fun]
	}
	if pf == nil {
		c.fail("unknown function %s", n.Fun)
	}
	if len(n.Args) != len(pf.Params) {
		c.fail("%s: %d arguments, want %d", n.Fun, len(n.Args), len(pf.Params))
	}
	if pf.Uninterp {
		var sorts, args []string
		for i, p := range pf.Params {
			pt, err := x.eng.resolveSpecType(pf.Pkg, p.Type)
			if err != nil {
				c.fail("%s: %v", pf.Name, err)
			}
			sorts = append(sorts, specSort(pt))
			av, _ := arg(i)
			switch a := av.(type) {
			case Sc:
				args = append(args, a.T)
			case AddrV:
				args = append(args, a.Addr)
			default:
				c.fail("%s: scalar argument expected", pf.Name)
			}
		}
		rt, err := x.eng.resolveSpecType(pf.Pkg, pf.Ret)
		if err != nil {
			c.fail("%s: %v", pf.Name, err)
		}
		name := "uf$" + pf.Name
		x.declareFun(name, "("+strings.Join(sorts, " ")+") "+specSort(rt))
		if len(args) == 0 {
			return Sc{T: name, S: specSort(rt)}, rt.gt
		}
		return Sc{T: sx(name, args...), S: specSort(rt)}, rt.gt
	}
	if c.depth > 12 {
		c.fail("pure function expansion too deep (%s)", n.Fun)
	}
	// expand: body evaluated in the current state with parameters bound
	nc := *c
	nc.env = map[string]envEntry{}
	nc.pkg = pf.Pkg
	nc.depth = c.depth + 1
	for i, p := range pf.Params {
		av, at := arg(i)
		pt, err := x.eng.resolveSpecType(pf.Pkg, p.Type)
		if err != nil {
			c.fail("%s: %v", pf.Name, err)
		}
		if pt.sort == "" {
			at = pt.gt
		}
		nc.env[p.Name] = envEntry{v: av, t: at}
	}
	return nc.eval(pf.Body)
}

func (c *SpecCtx) strOf(v Val) string {
	switch a := v.(type) {
	case Sc:
		if a.S == "Str" {
			return a.T
		}
	case SliceV:
		return c.x.bytesVal(c.cur, a)
	}
	c.fail("byte string expected")
	return ""
}

// strCmp: abstract three-way comparison on Str with total-order axioms.
func (x *Exec) strCmp(a, b string) string {
	x.declSort("Str")
	if !x.declared["strcmp"] {
		x.declareFun("strcmp", "(Str Str) Int")
		x.emitGlobal("(assert (forall ((a Str) (b Str)) (! (and (<= (- 1) (strcmp a b)) (<= (strcmp a b) 1) (= (strcmp a b) (- (strcmp b a)))) :pattern ((strcmp a b)))))")
		x.emitGlobal("(assert (forall ((a Str) (b Str)) (! (= (= (strcmp a b) 0) (= a b)) :pattern ((strcmp a b)))))")
		x.emitGlobal("(assert (forall ((a Str) (b Str) (c Str)) (! (=> (and (<= (strcmp a b) 0) (<= (strcmp b c) 0)) (<= (strcmp a c) 0)) :pattern ((strcmp a b) (strcmp b c)))))")
		x.emitGlobal("(assert (forall ((a Str) (b Str) (c Str)) (! (=> (and (< (strcmp a b) 0) (<= (strcmp b c) 0)) (< (strcmp a c) 0)) :pattern ((strcmp a b) (strcmp b c)))))")
		x.emitGlobal("(assert (forall ((a Str) (b Str) (c Str)) (! (=> (and (<= (strcmp a b) 0) (< (strcmp b c) 0)) (< (strcmp a c) 0)) :pattern ((strcmp a b) (strcmp b c)))))")
	}
	return sx("strcmp", a, b)
}

func (c *SpecCtx) tryWitness(n *EQuant) (v Val, t types.Type, ok bool) {
	defer func() {
		if r := recover(); r != nil {
			if _, isSpec := r.(specErr); isSpec {
				ok = false
				return
			}
			panic(r)
		}
	}()
	cc := c
	for _, qv := range n.Vars {
		wc := *c
		wc.env = map[string]envEntry{}
		for k, e := range c.env {
			wc.env[k] = e
		}
		for k, e := range c.witEnv {
			wc.env[k] = e
		}
		wc.pol = 0
		wc.cur = c.witCur
		if wc.cur == nil {
			wc.cur = c.cur
		}
		wv, wt := wc.eval(c.wit[qv.Name])
		cc = cc.with(qv.Name, wv, wt)
	}
	v, t = cc.eval(n.Body)
	return v, t, true
}
