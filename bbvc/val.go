package main

import (
	"fmt"
	"go/types"
	"math/big"
	"strings"

	"golang.org/x/tools/go/ssa"
)

// ---------------------------------------------------------------- symbolic values

type Val interface{}

// Sc is a scalar SMT term (sort Int, Bool, Str, Real).
// Pointer values are Sc of sort Int; for pointers to non-struct locations Loc says where they point.
type Sc struct {
	T      string
	S      string
	Loc    *Loc
	Fn     *ssa.Function // function value / closure
	Clo    []Val         // closure bindings
	Origin string        // e.g. "bbolt.ops.writeAt" for values loaded from function-typed fields
}

type SliceV struct{ Arr, Off, Len, Cap string }
type StructV struct{ F []Val }
type IfaceV struct{ Tag, Ref string }
type TupleV struct{ E []Val }
type IterV struct {
	Map  string
	MapT *types.Map
	Vis  string // heap name of the visited set
	Str  bool
}

type LocKind int

const (
	LField LocKind = iota
	LCell
	LElem
)

type Loc struct {
	Kind LocKind
	Base string // heap base name
	Ref  string // field/cell: object reference
	Arr  string // elem: backing array
	Idx  string // elem: absolute index in backing array
	Off  string // elem (optional): slice offset, with Rel the index relative to it (Idx = Off+Rel)
	Rel  string
}

func I(s string) Sc  { return Sc{T: s, S: "Int"} }
func B(s string) Sc  { return Sc{T: s, S: "Bool"} }
func sx(op string, args ...string) string {
	return "(" + op + " " + strings.Join(args, " ") + ")"
}
func and(fs ...string) string {
	var out []string
	for _, f := range fs {
		if f == "" || f == "true" {
			continue
		}
		if f == "false" {
			return "false"
		}
		out = append(out, f)
	}
	switch len(out) {
	case 0:
		return "true"
	case 1:
		return out[0]
	}
	return sx("and", out...)
}
func or(fs ...string) string {
	var out []string
	for _, f := range fs {
		if f == "" || f == "false" {
			continue
		}
		if f == "true" {
			return "true"
		}
		out = append(out, f)
	}
	switch len(out) {
	case 0:
		return "false"
	case 1:
		return out[0]
	}
	return sx("or", out...)
}
func not(f string) string {
	if f == "true" {
		return "false"
	}
	if f == "false" {
		return "true"
	}
	return sx("not", f)
}
func implies(a, b string) string {
	if a == "true" {
		return b
	}
	if b == "true" {
		return "true"
	}
	return sx("=>", a, b)
}
func ite(c, a, b string) string {
	if a == b {
		return a
	}
	if c == "true" {
		return a
	}
	if c == "false" {
		return b
	}
	return sx("ite", c, a, b)
}
func num(n int64) string {
	if n < 0 {
		return fmt.Sprintf("(- %d)", -n)
	}
	return fmt.Sprintf("%d", n)
}
func bigNum(n *big.Int) string {
	if n.Sign() < 0 {
		return "(- " + new(big.Int).Neg(n).String() + ")"
	}
	return n.String()
}

// ---------------------------------------------------------------- type classification

type TKind int

const (
	KInt TKind = iota
	KBool
	KStr
	KReal
	KPtr // pointer, map, chan, func, unsafe.Pointer: Int reference
	KSlice
	KIface
	KStruct
	KTuple
	KArray
	KOther
)

func kindOf(t types.Type) TKind {
	switch u := t.Underlying().(type) {
	case *types.Basic:
		info := u.Info()
		switch {
		case info&types.IsBoolean != 0:
			return KBool
		case info&types.IsString != 0:
			return KStr
		case info&types.IsInteger != 0:
			return KInt
		case info&types.IsFloat != 0:
			return KReal
		case u.Kind() == types.UnsafePointer:
			return KPtr
		case u.Kind() == types.UntypedNil:
			return KPtr
		}
		return KOther
	case *types.Pointer, *types.Map, *types.Chan, *types.Signature:
		return KPtr
	case *types.Slice:
		return KSlice
	case *types.Interface:
		return KIface
	case *types.Struct:
		return KStruct
	case *types.Tuple:
		return KTuple
	case *types.Array:
		return KArray
	}
	return KOther
}

func sortOfKind(k TKind) string {
	switch k {
	case KInt, KPtr:
		return "Int"
	case KBool:
		return "Bool"
	case KStr:
		return "Str"
	case KReal:
		return "Real"
	}
	return ""
}

// intRange returns (min,max,ok) of an integer type.
func intRange(t types.Type) (lo, hi *big.Int, ok bool) {
	b, isb := t.Underlying().(*types.Basic)
	if !isb || b.Info()&types.IsInteger == 0 {
		return nil, nil, false
	}
	bits := 64
	signed := true
	switch b.Kind() {
	case types.Int8:
		bits = 8
	case types.Int16:
		bits = 16
	case types.Int32:
		bits = 32
	case types.Int64, types.Int:
		bits = 64
	case types.Uint8:
		bits, signed = 8, false
	case types.Uint16:
		bits, signed = 16, false
	case types.Uint32:
		bits, signed = 32, false
	case types.Uint64, types.Uint, types.Uintptr:
		bits, signed = 64, false
	case types.UntypedInt, types.UntypedRune:
		return nil, nil, false
	}
	one := big.NewInt(1)
	if signed {
		hi = new(big.Int).Sub(new(big.Int).Lsh(one, uint(bits-1)), one)
		lo = new(big.Int).Neg(new(big.Int).Lsh(one, uint(bits-1)))
	} else {
		hi = new(big.Int).Sub(new(big.Int).Lsh(one, uint(bits)), one)
		lo = big.NewInt(0)
	}
	return lo, hi, true
}

func rangeFormula(t types.Type, term string) string {
	lo, hi, ok := intRange(t)
	if !ok {
		return ""
	}
	return sx("and", sx("<=", bigNum(lo), term), sx("<=", term, bigNum(hi)))
}

// wrap a mathematical result into the range of integer type t.
// exact: result known to be within one modulus of the range (add/sub of in-range operands).
func wrapTerm(t types.Type, term string, nearby bool) string {
	lo, hi, ok := intRange(t)
	if !ok {
		return term
	}
	mod := new(big.Int).Add(new(big.Int).Sub(hi, lo), big.NewInt(1))
	if nearby {
		return sx("ite", sx(">", term, bigNum(hi)), sx("-", term, bigNum(mod)),
			sx("ite", sx("<", term, bigNum(lo)), sx("+", term, bigNum(mod)), term))
	}
	if lo.Sign() == 0 {
		return sx("mod", term, bigNum(mod))
	}
	// signed: ((x - lo) mod m) + lo
	return sx("+", sx("mod", sx("-", term, bigNum(lo)), bigNum(mod)), bigNum(lo))
}

func isUnsigned(t types.Type) bool {
	b, ok := t.Underlying().(*types.Basic)
	return ok && b.Info()&types.IsUnsigned != 0
}

func derefType(t types.Type) types.Type {
	if p, ok := t.Underlying().(*types.Pointer); ok {
		return p.Elem()
	}
	return nil
}

func structName(t types.Type) string { return typeKey(t) }

func fieldHeap(st types.Type, f *types.Var) string {
	return "H$" + structName(st) + "$" + f.Name()
}
