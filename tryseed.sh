#!/bin/bash
# usage: tryseed.sh <patch> <prop>...   applies a seeded mutation to /repo, runs the checks, restores /repo
patch=$1; shift
cd /repo && [ -z "$(git status --porcelain)" ] || { echo "/repo has uncommitted changes; commit them first"; exit 2; }
cd /repo && git apply "$patch" || { echo "patch does not apply"; exit 2; }
for p in "$@"; do
  (cd /verif && ./check $p quick 2>&1 | grep -E "VIOLATION|UNDECIDED|quick:" | cut -c1-170)
done
cd /repo && git checkout -- . && git status --short | head -3
