package bbolt

// Bounded scenario for C11: for every supported page size class tried here, a database with ONE damaged meta
// page still opens (with the content of the surviving meta), a file with BOTH meta pages damaged or a file
// that is not a database is rejected with an error (no panic). Damage variants: one flipped byte inside the
// meta struct, a zeroed page, a page of 0xFF.

import (
	"bytes"
	"fmt"
	"os"
	"path/filepath"
	"testing"
)

func zz11Make(t *testing.T, dir string, pageSize int) (string, string, string) {
	path := filepath.Join(dir, fmt.Sprintf("db%d", pageSize))
	db, err := Open(path, 0600, &Options{PageSize: pageSize, NoSync: true})
	if err != nil {
		t.Fatalf("create with page size %d: %v", pageSize, err)
	}
	dump := func() string {
		var sb bytes.Buffer
		_ = db.View(func(tx *Tx) error {
			return tx.ForEach(func(name []byte, b *Bucket) error {
				return b.ForEach(func(k, v []byte) error { fmt.Fprintf(&sb, "%s/%s=%s;", name, k, v); return nil })
			})
		})
		return sb.String()
	}
	put := func(v string) {
		if err := db.Update(func(tx *Tx) error {
			b, err := tx.CreateBucketIfNotExists([]byte("b"))
			if err != nil {
				return err
			}
			return b.Put([]byte("k"), []byte(v))
		}); err != nil {
			t.Fatal(err)
		}
	}
	put("one")
	prev := dump()
	put("two")
	last := dump()
	if err := db.Close(); err != nil {
		t.Fatal(err)
	}
	return path, prev, last
}

func zz11Damage(t *testing.T, path string, pageSize int, page int, how int) {
	f, err := os.OpenFile(path, os.O_RDWR, 0)
	if err != nil {
		t.Fatal(err)
	}
	defer f.Close()
	off := int64(page * pageSize)
	switch how {
	case 0: // one flipped byte in the txid field of the meta struct (page header is 16 bytes)
		b := make([]byte, 1)
		f.ReadAt(b, off+16+48)
		b[0] ^= 0x5a
		f.WriteAt(b, off+16+48)
	case 1:
		f.WriteAt(make([]byte, pageSize), off)
	default:
		f.WriteAt(bytes.Repeat([]byte{0xff}, pageSize), off)
	}
}

func TestZZBbvcReplay_MetaDamage(t *testing.T) {
	dir := t.TempDir()
	for _, ps := range []int{1024, 4096, 8192, 65536, 1 << 20, 16 << 20} {
		for how := 0; how < 3; how++ {
			for page := 0; page < 2; page++ {
				path, prev, last := zz11Make(t, dir, ps)
				zz11Damage(t, path, ps, page, how)
				func() {
					defer func() {
						if r := recover(); r != nil {
							t.Errorf("page size %d, meta %d damaged (variant %d): Open panicked: %v", ps, page, how, r)
						}
					}()
					db, err := Open(path, 0600, &Options{ReadOnly: true})
					if err != nil {
						t.Errorf("page size %d, meta %d damaged (variant %d): Open failed although the other meta page is intact: %v", ps, page, how, err)
						return
					}
					var sb bytes.Buffer
					_ = db.View(func(tx *Tx) error {
						return tx.ForEach(func(name []byte, b *Bucket) error {
							return b.ForEach(func(k, v []byte) error { fmt.Fprintf(&sb, "%s/%s=%s;", name, k, v); return nil })
						})
					})
					if got := sb.String(); got != prev && got != last {
						t.Errorf("page size %d, meta %d damaged (variant %d): content %q is neither the last (%q) nor the previous (%q) committed state", ps, page, how, got, last, prev)
					}
					if db.Info().PageSize != ps {
						t.Errorf("page size %d, meta %d damaged: opened with page size %d", ps, page, db.Info().PageSize)
					}
					db.Close()
				}()
				// both metas damaged: rejected with an error
				zz11Damage(t, path, ps, 1-page, how)
				func() {
					defer func() {
						if r := recover(); r != nil {
							t.Errorf("page size %d, both metas damaged (variant %d): Open panicked: %v", ps, how, r)
						}
					}()
					db, err := Open(path, 0600, &Options{ReadOnly: true})
					if err == nil {
						db.Close()
						t.Errorf("page size %d, both metas damaged (variant %d): Open succeeded", ps, how)
					}
				}()
				os.Remove(path)
			}
		}
	}
	// not a database at all
	junk := filepath.Join(dir, "junk")
	os.WriteFile(junk, bytes.Repeat([]byte("not a bolt file "), 4096), 0600)
	func() {
		defer func() {
			if r := recover(); r != nil {
				t.Errorf("junk file: Open panicked: %v", r)
			}
		}()
		if db, err := Open(junk, 0600, &Options{ReadOnly: true}); err == nil {
			db.Close()
			t.Errorf("junk file: Open succeeded")
		}
	}()
}
