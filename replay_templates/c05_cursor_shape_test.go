package bbolt

// Replay scenario for C05 (template "cursor-shape"): buckets with several leaves where some leaves were
// emptied in the same write transaction; every call sequence over First/Last/Next/Prev/Seek up to a small
// length is compared with a sorted list with a position. Each call runs under a deadline ("never hangs").

import (
	"bytes"
	"fmt"
	"path/filepath"
	"sort"
	"testing"
	"time"
)

type zzModel struct {
	keys []string
	pos  int // index of current key; -1 = unset
}

func (m *zzModel) at() string {
	if m.pos < 0 || m.pos >= len(m.keys) {
		return ""
	}
	return m.keys[m.pos]
}
func (m *zzModel) first() string {
	if len(m.keys) == 0 {
		return ""
	}
	m.pos = 0
	return m.at()
}
func (m *zzModel) last() string {
	if len(m.keys) == 0 {
		return ""
	}
	m.pos = len(m.keys) - 1
	return m.at()
}
func (m *zzModel) next() string {
	if m.pos >= len(m.keys) { // after a Seek beyond the end: stays there
		return ""
	}
	if len(m.keys) == 0 || m.pos >= len(m.keys)-1 {
		if len(m.keys) > 0 {
			m.pos = len(m.keys) - 1
		}
		return ""
	}
	m.pos++
	return m.at()
}
func (m *zzModel) prev() string {
	if len(m.keys) == 0 || m.pos <= 0 {
		if len(m.keys) > 0 {
			m.pos = 0
		}
		return ""
	}
	m.pos--
	return m.at()
}
func (m *zzModel) seek(k string) string {
	i := sort.SearchStrings(m.keys, k)
	m.pos = i // i == len(keys): positioned after the last key
	return m.at()
}

func zzDeadline(t *testing.T, what string, f func()) bool {
	done := make(chan struct{})
	go func() { defer close(done); f() }()
	select {
	case <-done:
		return true
	case <-time.After(5 * time.Second):
		t.Errorf("%s did not return within 5s (cursor call hangs)", what)
		return false
	}
}

func TestZZBbvcReplay_CursorShapes(t *testing.T) {
	const n = 300 // enough keys of 100 bytes for several leaves at page size 4096
	allKeys := make([]string, n)
	for i := range allKeys {
		allKeys[i] = fmt.Sprintf("k%05d", i)
	}
	// deletion patterns applied in the same write transaction as the cursor calls
	patterns := map[string]func(i int) bool{
		"none":        func(i int) bool { return false },
		"all":         func(i int) bool { return true },
		"first-third": func(i int) bool { return i < n/3 },
		"last-third":  func(i int) bool { return i >= 2*n/3 },
		"middle":      func(i int) bool { return i >= n/3 && i < 2*n/3 },
		"all-but-one": func(i int) bool { return i != n/2 },
	}
	seqs := [][]string{
		{"Last"}, {"First"}, {"Last", "Prev"}, {"First", "Next"}, {"Last", "Prev", "Prev", "Next"},
		{"First", "Prev", "Next"}, {"Last", "Next", "Prev"}, {"Seek:k00150", "Prev"}, {"Seek:k00150", "Next"},
		{"Seek:k99999", "Prev"}, {"Last", "ALLPREV"}, {"First", "ALLNEXT"},
	}
	for name, del := range patterns {
		db, err := Open(filepath.Join(t.TempDir(), "db-"+name), 0600, &Options{PageSize: 4096})
		if err != nil {
			t.Fatal(err)
		}
		if err := db.Update(func(tx *Tx) error {
			b, _ := tx.CreateBucket([]byte("b"))
			for _, k := range allKeys {
				if err := b.Put([]byte(k), make([]byte, 100)); err != nil {
					return err
				}
			}
			return nil
		}); err != nil {
			t.Fatal(err)
		}
		tx, err := db.Begin(true)
		if err != nil {
			t.Fatal(err)
		}
		b := tx.Bucket([]byte("b"))
		var live []string
		for i, k := range allKeys {
			if del(i) {
				if err := b.Delete([]byte(k)); err != nil {
					t.Fatal(err)
				}
			} else {
				live = append(live, k)
			}
		}
		for _, seq := range seqs {
			c := b.Cursor()
			m := &zzModel{keys: live, pos: -1}
			ok := true
			for _, op := range seq {
				if !ok {
					break
				}
				var got []byte
				var want string
				step := func(call func() ([]byte, []byte), w string) {
					want = w
					ok = zzDeadline(t, fmt.Sprintf("[%s] %v: %s", name, seq, op), func() { got, _ = call() })
				}
				switch {
				case op == "First":
					step(c.First, m.first())
				case op == "Last":
					step(c.Last, m.last())
				case op == "Next":
					step(c.Next, m.next())
				case op == "Prev":
					step(c.Prev, m.prev())
				case len(op) > 5 && op[:5] == "Seek:":
					k := op[5:]
					step(func() ([]byte, []byte) { return c.Seek([]byte(k)) }, m.seek(k))
				case op == "ALLPREV", op == "ALLNEXT":
					cnt := 0
					for ok {
						if op == "ALLPREV" {
							step(c.Prev, m.prev())
						} else {
							step(c.Next, m.next())
						}
						if ok && !bytes.Equal(got, []byte(want)) {
							t.Errorf("[%s] %v: step %d returned %q, want %q", name, seq, cnt, got, want)
							ok = false
						}
						cnt++
						if want == "" || cnt > 2*n {
							break
						}
					}
					continue
				}
				if ok && !bytes.Equal(got, []byte(want)) {
					t.Errorf("[%s] %v: %s returned %q, want %q", name, seq, op, got, want)
					ok = false
				}
			}
		}
		_ = tx.Rollback()
		db.Close()
	}
}
