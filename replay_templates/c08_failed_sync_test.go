package bbolt

// Bounded scenario for C08 (known finding D3): the fdatasync that follows the meta-page write of a commit
// fails. Commit returns the error and rolls back, but the meta page it wrote is already the newest valid one
// in the mapping: the "failed" transaction becomes visible, and rollback reloads the freelist from the
// new freelist page and forgets the pages the failed transaction had made pending, so the next writers
// recycle pages an open reader still uses.
//
// The sync failure is injected without touching the repository: the writeAt hook (db.ops.writeAt) closes the
// file descriptor right after the real meta write, so the following fdatasync(2) returns EBADF; the test then
// re-opens the descriptor, as an operator would after a transient I/O error.

import (
	"bytes"
	"fmt"
	"os"
	"path/filepath"
	"testing"
)

func TestZZBbvcReplay_FailedMetaSync(t *testing.T) {
	path := filepath.Join(t.TempDir(), "db")
	db, err := Open(path, 0600, &Options{PageSize: 4096, InitialMmapSize: 1 << 24})
	if err != nil {
		t.Fatal(err)
	}
	put := func(gen byte) error {
		return db.Update(func(tx *Tx) error {
			b, err := tx.CreateBucketIfNotExists([]byte("b"))
			if err != nil {
				return err
			}
			for i := 0; i < 50; i++ {
				if err := b.Put([]byte(fmt.Sprintf("k%03d", i)), bytes.Repeat([]byte{gen}, 300)); err != nil {
					return err
				}
			}
			return nil
		})
	}
	for g := byte(1); g <= 3; g++ {
		if err := put(g); err != nil {
			t.Fatal(err)
		}
	}
	rd, err := db.Begin(false)
	if err != nil {
		t.Fatal(err)
	}
	snapshot := func(tx *Tx) string {
		var sb bytes.Buffer
		_ = tx.Bucket([]byte("b")).ForEach(func(k, v []byte) error {
			fmt.Fprintf(&sb, "%s=%x/%d;", k, v[:1], len(v))
			return nil
		})
		return sb.String()
	}
	want := snapshot(rd)

	// the next commit: the meta write succeeds, the fdatasync after it fails
	realWrite := db.ops.writeAt
	db.ops.writeAt = func(b []byte, off int64) (int, error) {
		n, err := realWrite(b, off)
		if off < int64(2*db.pageSize) {
			db.file.Close()
		}
		return n, err
	}
	err = put(0xdd)
	db.ops.writeAt = realWrite
	if err == nil {
		t.Skip("the injected sync failure did not make Commit fail on this platform")
	}
	t.Logf("Commit failed as intended: %v", err)
	f, ferr := os.OpenFile(path, os.O_RDWR, 0600)
	if ferr != nil {
		t.Fatal(ferr)
	}
	db.file = f
	db.ops.writeAt = f.WriteAt

	// C08: the failed commit changed nothing ...
	_ = db.View(func(tx *Tx) error {
		if got := snapshot(tx); got != want {
			t.Errorf("a transaction begun after the FAILED commit sees its changes (first value byte %s...)", got[:12])
		}
		return nil
	})
	// ... and the database stays usable without disturbing the open reader
	for g := byte(5); g <= 6; g++ {
		if err := put(g); err != nil {
			t.Fatalf("database unusable after the failed commit: %v", err)
		}
		if got := snapshot(rd); got != want {
			t.Errorf("after the failed commit and %d more commit(s) the open reader's snapshot changed: %.40s... (was %.40s...)", g-4, got, want)
			break
		}
	}
	rd.Rollback()
	db.Close()
}
