package bbolt

import (
	"os"
	"path/filepath"
	"testing"
	"time"
)

// D7 probe: a reader whose snapshot has txid 0 (fresh database whose meta page 1 is damaged, so meta 0
// with txid 0 is the newest valid one) is not protected by ReleasePendingPages: releaseRange(0, 0-1).
func TestZZBbvcReplay_ReaderTxidZero(t *testing.T) {
	path := filepath.Join(t.TempDir(), "db")
	db, err := Open(path, 0600, &Options{PageSize: 4096})
	if err != nil {
		t.Fatal(err)
	}
	db.Close()
	// damage meta 1 (page 1): flip a byte inside the meta struct so that its checksum fails
	f, _ := os.OpenFile(path, os.O_RDWR, 0)
	b := make([]byte, 1)
	f.ReadAt(b, 4096+16+20)
	b[0] ^= 0xff
	f.WriteAt(b, 4096+16+20)
	f.Close()
	db, err = Open(path, 0600, &Options{PageSize: 4096, InitialMmapSize: 1 << 24})
	if err != nil {
		t.Fatal(err)
	}
	// no deferred Close: if the reader hangs, Close would wait for it forever
	rd, err := db.Begin(false)
	if err != nil {
		t.Fatal(err)
	}
	t.Logf("reader txid = %d root=%d", rd.ID(), rd.meta.RootBucket().RootPage())
	dump := func() int {
		done := make(chan int, 1)
		go func() {
			n := 0
			_ = rd.ForEach(func(name []byte, b *Bucket) error { n++; return nil })
			done <- n
		}()
		select {
		case n := <-done:
			return n
		case <-time.After(5 * time.Second):
			t.Fatalf("the reader at txid %d hangs while iterating its (overwritten) root page", rd.ID())
			return -1
		}
	}
	if n := dump(); n != 0 {
		t.Fatalf("fresh db has %d buckets", n)
	}
	for i := 0; i < 4; i++ {
		if err := db.Update(func(tx *Tx) error {
			b, err := tx.CreateBucketIfNotExists([]byte{byte('a' + i)})
			if err != nil {
				return err
			}
			return b.Put([]byte("k"), make([]byte, 100))
		}); err != nil {
			t.Fatal(err)
		}
		if n := dump(); n != 0 {
			t.Errorf("after commit %d the reader at txid %d sees %d buckets (snapshot had 0)", i+1, rd.ID(), n)
		}
	}
	rd.Rollback()
	db.Close()
}
