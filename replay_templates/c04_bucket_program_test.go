package bbolt

// Replay scenario for C04 / C07 (template "bucket-program"): small API programs against a reference
// model (nested maps with sequences), with Tx.Check after every commit. Run through `go test -overlay`.

import (
	"bytes"
	"fmt"
	"path/filepath"
	"testing"
)

func zzCheck(t *testing.T, db *DB, what string) {
	t.Helper()
	_ = db.View(func(tx *Tx) error {
		n := 0
		for err := range tx.Check() {
			if n < 3 {
				t.Errorf("%s: Tx.Check: %v", what, err)
			}
			n++
		}
		return nil
	})
}

// D5a: a bucket that was modified in this transaction is moved: its uncommitted writes must survive
func TestZZBbvcReplay_MoveBucketKeepsWrites(t *testing.T) {
	db, err := Open(filepath.Join(t.TempDir(), "db"), 0600, &Options{PageSize: 4096})
	if err != nil {
		t.Fatal(err)
	}
	defer db.Close()
	if err := db.Update(func(tx *Tx) error {
		a, _ := tx.CreateBucket([]byte("a"))
		c, err := a.CreateBucket([]byte("c"))
		if err != nil {
			return err
		}
		if _, err := tx.CreateBucket([]byte("dst")); err != nil {
			return err
		}
		return c.Put([]byte("k0"), []byte("committed"))
	}); err != nil {
		t.Fatal(err)
	}
	if err := db.Update(func(tx *Tx) error {
		a := tx.Bucket([]byte("a"))
		c := a.Bucket([]byte("c"))
		if err := c.Put([]byte("k1"), []byte("same-tx")); err != nil {
			return err
		}
		if err := c.SetSequence(7); err != nil {
			return err
		}
		return a.MoveBucket([]byte("c"), tx.Bucket([]byte("dst")))
	}); err != nil {
		t.Fatal(err)
	}
	zzCheck(t, db, "after move")
	_ = db.View(func(tx *Tx) error {
		m := tx.Bucket([]byte("dst")).Bucket([]byte("c"))
		if m == nil {
			t.Fatal("moved bucket missing")
		}
		if v := m.Get([]byte("k0")); !bytes.Equal(v, []byte("committed")) {
			t.Errorf("dst/c[k0] = %q, want committed", v)
		}
		if v := m.Get([]byte("k1")); !bytes.Equal(v, []byte("same-tx")) {
			t.Errorf("dst/c[k1] = %q, want same-tx (a Put made before MoveBucket in the same transaction was lost)", v)
		}
		if s := m.Sequence(); s != 7 {
			t.Errorf("dst/c sequence = %d, want 7", s)
		}
		if tx.Bucket([]byte("a")).Bucket([]byte("c")) != nil {
			t.Errorf("a/c still exists after the move")
		}
		return nil
	})
}

// D4: deleting a bucket that holds several paged nested buckets, after a Put into it in the same tx
func TestZZBbvcReplay_DeleteBucketNestedNoLeak(t *testing.T) {
	for _, nested := range []int{2, 3, 8} {
		db, err := Open(filepath.Join(t.TempDir(), fmt.Sprintf("db%d", nested)), 0600, &Options{PageSize: 4096})
		if err != nil {
			t.Fatal(err)
		}
		if err := db.Update(func(tx *Tx) error {
			p, _ := tx.CreateBucket([]byte("p"))
			for i := 0; i < nested; i++ {
				c, err := p.CreateBucket([]byte(fmt.Sprintf("child%02d", i)))
				if err != nil {
					return err
				}
				for j := 0; j < 60; j++ {
					if err := c.Put([]byte(fmt.Sprintf("key%04d", j)), make([]byte, 200)); err != nil {
						return err
					}
				}
			}
			return nil
		}); err != nil {
			t.Fatal(err)
		}
		zzCheck(t, db, "after fill")
		if err := db.Update(func(tx *Tx) error {
			p := tx.Bucket([]byte("p"))
			if err := p.Put([]byte("x"), []byte("y")); err != nil { // materialises p's root node
				return err
			}
			return tx.DeleteBucket([]byte("p"))
		}); err != nil {
			t.Fatal(err)
		}
		zzCheck(t, db, fmt.Sprintf("after DeleteBucket with %d nested buckets", nested))
		db.Close()
	}
}

// D5b: moving a bucket into one of its own sub-buckets must fail and leave the state unchanged
func TestZZBbvcReplay_MoveBucketIntoOwnSubtree(t *testing.T) {
	db, err := Open(filepath.Join(t.TempDir(), "db"), 0600, &Options{PageSize: 4096})
	if err != nil {
		t.Fatal(err)
	}
	defer db.Close()
	for _, reopenTx := range []bool{false, true} {
		name := []byte(fmt.Sprintf("a%v", reopenTx))
		mk := func(tx *Tx) error {
			a, err := tx.CreateBucket(name)
			if err != nil {
				return err
			}
			c, err := a.CreateBucket([]byte("c"))
			if err != nil {
				return err
			}
			d, err := c.CreateBucket([]byte("d"))
			if err != nil {
				return err
			}
			for i := 0; i < 300; i++ {
				if err := d.Put([]byte(fmt.Sprintf("k%04d", i)), bytes.Repeat([]byte{'v'}, 200)); err != nil {
					return err
				}
			}
			return c.Put([]byte("x"), []byte("y"))
		}
		mv := func(tx *Tx) error {
			a := tx.Bucket(name)
			d := a.Bucket([]byte("c")).Bucket([]byte("d"))
			if err := a.MoveBucket([]byte("c"), d); err == nil {
				t.Errorf("MoveBucket(c -> c/d) returned nil (reopenTx=%v)", reopenTx)
			}
			if err := a.MoveBucket([]byte("c"), a.Bucket([]byte("c"))); err == nil {
				t.Errorf("MoveBucket(c -> c) returned nil (reopenTx=%v)", reopenTx)
			}
			return nil
		}
		if reopenTx {
			if err := db.Update(mk); err != nil {
				t.Fatal(err)
			}
			if err := db.Update(mv); err != nil {
				t.Fatal(err)
			}
		} else if err := db.Update(func(tx *Tx) error {
			if err := mk(tx); err != nil {
				return err
			}
			return mv(tx)
		}); err != nil {
			t.Fatal(err)
		}
		_ = db.View(func(tx *Tx) error {
			c := tx.Bucket(name).Bucket([]byte("c"))
			if c == nil || c.Bucket([]byte("d")) == nil || string(c.Get([]byte("x"))) != "y" {
				t.Errorf("bucket c or c/d lost after the refused move (reopenTx=%v)", reopenTx)
			} else if n := c.Bucket([]byte("d")).Stats().KeyN; n != 300 {
				t.Errorf("c/d has %d keys, want 300", n)
			}
			return nil
		})
		zzCheck(t, db, "after refused move")
	}
}
