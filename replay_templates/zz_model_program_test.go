package bbolt

// Bounded stand-in "model programs" (template shared by C02, C04, C05, C07, C10, C14, C15).
//
// This is NOT a proof: it runs seeded random API programs of bounded length against a reference model
// (a tree of byte-string-keyed maps, each with a counter) on the real code and is reported in the
// evidence under "bounded", never under "discharged". It stands in for the tree-level functions whose
// contracts are assumed (opaque) by the deductive part: node.spill/split/rebalance/put/del/read/write,
// Bucket.spill/rebalance/free/inlineable, Cursor.search*, freelist back ends behind the interface.
//
// Environment: BBVC_PROP selects which assertions are active (empty = all); BBVC_PROGRAMS / BBVC_OPS the
// bound (default 40 programs x 60 operations); VERIF_SEED the seed.

import (
	"bytes"
	"fmt"
	"math/rand"
	"os"
	"path/filepath"
	"sort"
	"strconv"
	"strings"
	"testing"
	"time"

	berrors "go.etcd.io/bbolt/errors"
)

type zmBucket struct {
	kv  map[string]string
	sub map[string]*zmBucket
	seq uint64
}

func zmNew() *zmBucket { return &zmBucket{kv: map[string]string{}, sub: map[string]*zmBucket{}} }

func (m *zmBucket) clone() *zmBucket {
	c := zmNew()
	c.seq = m.seq
	for k, v := range m.kv {
		c.kv[k] = v
	}
	for k, v := range m.sub {
		c.sub[k] = v.clone()
	}
	return c
}

func (m *zmBucket) keys() []string {
	var ks []string
	for k := range m.kv {
		ks = append(ks, k)
	}
	for k := range m.sub {
		ks = append(ks, k)
	}
	sort.Strings(ks)
	return ks
}

func (m *zmBucket) dump(sb *strings.Builder, ind string) {
	fmt.Fprintf(sb, "%sseq=%d\n", ind, m.seq)
	for _, k := range m.keys() {
		if s, ok := m.sub[k]; ok {
			fmt.Fprintf(sb, "%s%q: bucket\n", ind, zmShort(k))
			s.dump(sb, ind+"  ")
		} else {
			fmt.Fprintf(sb, "%s%q=%s\n", ind, zmShort(k), zmShort(m.kv[k]))
		}
	}
}

func zmShort(s string) string {
	if len(s) > 24 {
		return fmt.Sprintf("%s..(%d,%08x)", s[:12], len(s), zmHash(s))
	}
	return s
}

func zmHash(s string) uint32 {
	h := uint32(2166136261)
	for i := 0; i < len(s); i++ {
		h = (h ^ uint32(s[i])) * 16777619
	}
	return h
}

// zmDumpReal dumps a real bucket (through ForEach / Bucket / Sequence) in the same format.
func zmDumpReal(b *Bucket, sb *strings.Builder, ind string, isRoot bool) {
	if isRoot {
		fmt.Fprintf(sb, "%sseq=%d\n", ind, 0)
	} else {
		fmt.Fprintf(sb, "%sseq=%d\n", ind, b.Sequence())
	}
	_ = b.ForEach(func(k, v []byte) error {
		if v == nil {
			fmt.Fprintf(sb, "%s%q: bucket\n", ind, zmShort(string(k)))
			c := b.Bucket(k)
			if c == nil {
				fmt.Fprintf(sb, "%s  <nil bucket>\n", ind)
				return nil
			}
			zmDumpReal(c, sb, ind+"  ", false)
		} else {
			fmt.Fprintf(sb, "%s%q=%s\n", ind, zmShort(string(k)), zmShort(string(v)))
		}
		return nil
	})
}

func zmDumpTx(tx *Tx) string {
	var sb strings.Builder
	zmDumpReal(&tx.root, &sb, "", true)
	return sb.String()
}

func zmDumpModel(m *zmBucket) string {
	var sb strings.Builder
	m.dump(&sb, "")
	return sb.String()
}

type zmRun struct {
	t      *testing.T
	prop   string
	rng    *rand.Rand
	failed bool
	trace  []string
}

func (r *zmRun) on(p string) bool { return r.prop == "" || strings.Contains(r.prop, p) }

func (r *zmRun) fail(p string, format string, a ...interface{}) {
	if !r.on(p) {
		return
	}
	if !r.failed {
		tr := r.trace
		if len(tr) > 40 {
			tr = tr[len(tr)-40:]
		}
		r.t.Errorf("[%s] %s\n  program tail:\n    %s", p, fmt.Sprintf(format, a...), strings.Join(tr, "\n    "))
	}
	r.failed = true
}

func (r *zmRun) log(format string, a ...interface{}) { r.trace = append(r.trace, fmt.Sprintf(format, a...)) }

var zmKeyPool = []string{"a", "ab", "b", "k1", "k2", "zz"}

func (r *zmRun) key() string {
	switch r.rng.Intn(10) {
	case 0:
		return zmKeyPool[r.rng.Intn(len(zmKeyPool))]
	case 1:
		return ""
	default:
		return fmt.Sprintf("key%04d", r.rng.Intn(400))
	}
}

func (r *zmRun) val() string {
	n := 0
	switch r.rng.Intn(6) {
	case 0:
		n = 0
	case 1:
		n = r.rng.Intn(16)
	case 2, 3:
		n = 50 + r.rng.Intn(300)
	case 4:
		n = 900 + r.rng.Intn(1500)
	default:
		n = 4000 + r.rng.Intn(9000)
	}
	b := make([]byte, n)
	c := byte('a' + r.rng.Intn(26))
	for i := range b {
		b[i] = c + byte(i%7)
	}
	return string(b)
}

// pick a bucket path (existing in the model); nil path = root
func (r *zmRun) pickPath(m *zmBucket) []string {
	var path []string
	cur := m
	for d := 0; d < 3; d++ {
		if len(cur.sub) == 0 || r.rng.Intn(3) == 0 {
			break
		}
		var names []string
		for k := range cur.sub {
			names = append(names, k)
		}
		sort.Strings(names)
		n := names[r.rng.Intn(len(names))]
		path = append(path, n)
		cur = cur.sub[n]
	}
	return path
}

func zmAt(m *zmBucket, path []string) *zmBucket {
	for _, p := range path {
		m = m.sub[p]
		if m == nil {
			return nil
		}
	}
	return m
}

func zmReal(tx *Tx, path []string) *Bucket {
	if len(path) == 0 {
		return nil
	}
	b := tx.Bucket([]byte(path[0]))
	for _, p := range path[1:] {
		if b == nil {
			return nil
		}
		b = b.Bucket([]byte(p))
	}
	return b
}

func (r *zmRun) bucketName(m *zmBucket) string {
	if len(m.sub) > 0 && r.rng.Intn(2) == 0 {
		var names []string
		for k := range m.sub {
			names = append(names, k)
		}
		sort.Strings(names)
		return names[r.rng.Intn(len(names))]
	}
	if r.rng.Intn(12) == 0 {
		return r.key()
	}
	return fmt.Sprintf("bkt%d", r.rng.Intn(6))
}

func zmErr(e error) string {
	if e == nil {
		return "nil"
	}
	return e.Error()
}

type zmReader struct {
	tx   *Tx
	snap string
	id   int
}

// one write-transaction operation on model and real code
func (r *zmRun) op(tx *Tx, m *zmBucket) {
	path := r.pickPath(m)
	mb := zmAt(m, path)
	rb := zmReal(tx, path)
	if len(path) > 0 && rb == nil {
		r.fail("C04", "bucket %v exists in the model but Bucket() returned nil", path)
		return
	}
	ps := strings.Join(path, "/")
	switch c := r.rng.Intn(100); {
	case c < 30: // Put
		if len(path) == 0 {
			return
		}
		k, v := r.key(), r.val()
		var want error
		if k == "" {
			want = berrors.ErrKeyRequired
		} else if _, ok := mb.sub[k]; ok {
			want = berrors.ErrIncompatibleValue
		}
		r.log("Put(%s, %q, len %d)", ps, k, len(v))
		got := rb.Put([]byte(k), []byte(v))
		if got != want {
			r.fail("C04", "Put(%s,%q) = %v, model says %v", ps, k, zmErr(got), zmErr(want))
		}
		if want == nil {
			mb.kv[k] = v
		}
	case c < 42: // Delete
		if len(path) == 0 {
			return
		}
		k := r.key()
		if ks := mb.keys(); len(ks) > 0 && r.rng.Intn(3) > 0 {
			k = ks[r.rng.Intn(len(ks))]
		}
		var want error
		if _, ok := mb.sub[k]; ok {
			want = berrors.ErrIncompatibleValue
		}
		r.log("Delete(%s, %q)", ps, k)
		got := rb.Delete([]byte(k))
		if got != want {
			r.fail("C04", "Delete(%s,%q) = %v, model says %v", ps, k, zmErr(got), zmErr(want))
		}
		if want == nil {
			delete(mb.kv, k)
		}
	case c < 50: // delete a run of keys (empties whole leaves)
		if len(path) == 0 {
			return
		}
		ks := mb.keys()
		if len(ks) < 4 {
			return
		}
		lo := r.rng.Intn(len(ks))
		hi := lo + r.rng.Intn(len(ks)-lo)
		r.log("DeleteRange(%s, %d..%d of %d)", ps, lo, hi, len(ks))
		for _, k := range ks[lo:hi] {
			if _, ok := mb.sub[k]; ok {
				continue
			}
			if err := rb.Delete([]byte(k)); err != nil {
				r.fail("C04", "Delete(%s,%q) = %v", ps, k, err)
			}
			delete(mb.kv, k)
		}
	case c < 56: // Get
		if len(path) == 0 {
			return
		}
		k := r.key()
		if ks := mb.keys(); len(ks) > 0 && r.rng.Intn(2) == 0 {
			k = ks[r.rng.Intn(len(ks))]
		}
		got := rb.Get([]byte(k))
		want, ok := mb.kv[k]
		if (got == nil) != !ok || string(got) != want {
			r.fail("C04", "Get(%s,%q) = %s (nil=%v), model says %s (present=%v)", ps, k, zmShort(string(got)), got == nil, zmShort(want), ok)
		}
	case c < 66: // CreateBucket / CreateBucketIfNotExists
		name := r.bucketName(mb)
		ine := r.rng.Intn(2) == 0
		var want error
		if name == "" {
			want = berrors.ErrBucketNameRequired
		} else if _, ok := mb.sub[name]; ok {
			if !ine {
				want = berrors.ErrBucketExists
			}
		} else if _, ok := mb.kv[name]; ok {
			want = berrors.ErrIncompatibleValue
		}
		r.log("CreateBucket(%s, %q, ifNotExists=%v)", ps, name, ine)
		var got error
		var nb *Bucket
		switch {
		case len(path) == 0 && ine:
			nb, got = tx.CreateBucketIfNotExists([]byte(name))
		case len(path) == 0:
			nb, got = tx.CreateBucket([]byte(name))
		case ine:
			nb, got = rb.CreateBucketIfNotExists([]byte(name))
		default:
			nb, got = rb.CreateBucket([]byte(name))
		}
		if got != want {
			r.fail("C04", "CreateBucket(%s,%q,ine=%v) = %v, model says %v", ps, name, ine, zmErr(got), zmErr(want))
		}
		if want == nil {
			if nb == nil {
				r.fail("C04", "CreateBucket(%s,%q) returned a nil bucket and a nil error", ps, name)
			}
			if _, ok := mb.sub[name]; !ok {
				mb.sub[name] = zmNew()
			}
		}
	case c < 72: // DeleteBucket
		name := r.bucketName(mb)
		var want error
		if _, ok := mb.sub[name]; ok {
		} else if _, ok := mb.kv[name]; ok {
			want = berrors.ErrIncompatibleValue
		} else {
			want = berrors.ErrBucketNotFound
		}
		r.log("DeleteBucket(%s, %q)", ps, name)
		var got error
		if len(path) == 0 {
			got = tx.DeleteBucket([]byte(name))
		} else {
			got = rb.DeleteBucket([]byte(name))
		}
		if name == "" {
			// no error is documented for an empty name: any error, state unchanged
			if got == nil {
				r.fail("C04", "DeleteBucket(%s, \"\") returned nil", ps)
			}
		} else if got != want {
			r.fail("C04", "DeleteBucket(%s,%q) = %v, model says %v", ps, name, zmErr(got), zmErr(want))
		}
		if want == nil {
			delete(mb.sub, name)
		}
	case c < 79: // MoveBucket
		name := r.bucketName(mb)
		dpath := r.pickPath(m)
		db := zmAt(m, dpath)
		// is the destination inside the moved bucket (or the moved bucket itself)?
		inside := len(dpath) > len(path) && dpath[len(path)] == name
		for i := range path {
			if inside && dpath[i] != path[i] {
				inside = false
			}
		}
		var want error
		wantAny := false
		if _, ok := mb.sub[name]; !ok {
			if _, ok := mb.kv[name]; ok {
				want = berrors.ErrIncompatibleValue
			} else {
				want = berrors.ErrBucketNotFound
			}
		} else if strings.Join(dpath, "/") == ps {
			want = berrors.ErrSameBuckets
		} else if inside {
			wantAny = true // some error, state unchanged
		} else if _, ok := db.sub[name]; ok {
			want = berrors.ErrBucketExists
		} else if _, ok := db.kv[name]; ok {
			want = berrors.ErrIncompatibleValue
		}
		r.log("MoveBucket(%q, %s -> %s)", name, ps, strings.Join(dpath, "/"))
		got := tx.MoveBucket([]byte(name), rb, zmReal(tx, dpath))
		if name == "" {
			wantAny = true // no error is documented for an empty name: any error, state unchanged
		}
		if wantAny {
			if got == nil {
				r.fail("C04", "MoveBucket(%q, %s -> %s) into its own subtree returned nil", name, ps, strings.Join(dpath, "/"))
			}
		} else if got != want {
			r.fail("C04", "MoveBucket(%q, %s -> %s) = %v, model says %v", name, ps, strings.Join(dpath, "/"), zmErr(got), zmErr(want))
		}
		if want == nil && !wantAny {
			db.sub[name] = mb.sub[name]
			delete(mb.sub, name)
		}
	case c < 86: // sequences
		if len(path) == 0 {
			return
		}
		switch r.rng.Intn(3) {
		case 0:
			v := uint64(r.rng.Intn(1000))
			r.log("SetSequence(%s, %d)", ps, v)
			if err := rb.SetSequence(v); err != nil {
				r.fail("C04", "SetSequence(%s) = %v", ps, err)
			}
			mb.seq = v
		case 1:
			r.log("NextSequence(%s)", ps)
			got, err := rb.NextSequence()
			mb.seq++
			if err != nil || got != mb.seq {
				r.fail("C04", "NextSequence(%s) = %d, %v; model says %d", ps, got, err, mb.seq)
			}
		default:
			if got := rb.Sequence(); got != mb.seq {
				r.fail("C04", "Sequence(%s) = %d; model says %d", ps, got, mb.seq)
			}
		}
	case c < 93: // cursor walk with uncommitted changes
		if len(path) == 0 {
			return
		}
		r.cursorWalk(rb, mb, ps)
	default: // KeyN
		if len(path) == 0 {
			return
		}
		n := 0
		_ = rb.ForEach(func(k, v []byte) error { n++; return nil })
		if n != len(mb.kv)+len(mb.sub) {
			r.fail("C04", "ForEach(%s) visited %d keys, model has %d", ps, n, len(mb.kv)+len(mb.sub))
		}
	}
}

// cursorWalk drives a cursor with a random mixture of calls and compares with a sorted list with a position.
func (r *zmRun) cursorWalk(b *Bucket, m *zmBucket, ps string) {
	keys := m.keys()
	pos := -1 // index into keys; -1 = unpositioned
	c := b.Cursor()
	chk := func(call string, k, v []byte, want int) {
		wk := ""
		if want >= 0 && want < len(keys) {
			wk = keys[want]
		}
		if (k == nil) != (wk == "") || string(k) != wk {
			r.fail("C05", "cursor %s on %s: got %q, sorted-list model says %q (len %d)", call, ps, zmShort(string(k)), zmShort(wk), len(keys))
			return
		}
		if k != nil {
			if _, isB := m.sub[wk]; isB {
				if v != nil {
					r.fail("C05", "cursor %s on %s: nested bucket %q has non-nil value", call, ps, wk)
				}
			} else if string(v) != m.kv[wk] || v == nil {
				r.fail("C05", "cursor %s on %s: value of %q differs from model", call, ps, zmShort(wk))
			}
		}
	}
	done := make(chan struct{})
	go func() {
		defer close(done)
		// full forward and backward enumeration
		i := 0
		for k, v := c.First(); k != nil || i < len(keys); k, v = c.Next() {
			chk("First/Next", k, v, i)
			i++
			if r.failed || i > len(keys)+2 {
				return
			}
		}
		i = len(keys) - 1
		for k, v := c.Last(); k != nil || i >= 0; k, v = c.Prev() {
			chk("Last/Prev", k, v, i)
			i--
			if r.failed || i < -3 {
				return
			}
		}
		// random mixture
		for n := 0; n < 24 && !r.failed; n++ {
			switch r.rng.Intn(6) {
			case 0:
				k, v := c.First()
				pos = 0
				if len(keys) == 0 {
					pos = -1
				}
				chk("First", k, v, pos)
			case 1:
				k, v := c.Last()
				pos = len(keys) - 1
				chk("Last", k, v, pos)
			case 2, 3:
				if pos < 0 {
					continue
				}
				k, v := c.Next()
				if pos+1 < len(keys) {
					pos++
					chk("Next", k, v, pos)
				} else {
					chk("Next(off end)", k, v, -1)
					pos = len(keys) - 1 // stays on the last key
				}
			case 4:
				if pos < 0 {
					continue
				}
				k, v := c.Prev()
				if pos > 0 {
					pos--
					chk("Prev", k, v, pos)
				} else {
					chk("Prev(off start)", k, v, -1)
					pos = 0
				}
			default:
				s := r.key()
				if len(keys) > 0 && r.rng.Intn(2) == 0 {
					s = keys[r.rng.Intn(len(keys))]
				}
				k, v := c.Seek([]byte(s))
				p := sort.SearchStrings(keys, s)
				if p < len(keys) {
					pos = p
					chk(fmt.Sprintf("Seek(%q)", s), k, v, p)
				} else {
					chk(fmt.Sprintf("Seek(%q) past end", s), k, v, -1)
					pos = -1 // position after a failed seek is not pinned down by the property
				}
			}
		}
	}()
	select {
	case <-done:
	case <-time.After(20 * time.Second):
		r.fail("C05", "cursor call on %s did not return within 20s", ps)
		panic("cursor hang")
	}
}

func zmEnvInt(name string, def int) int {
	if v, err := strconv.Atoi(os.Getenv(name)); err == nil && v > 0 {
		return v
	}
	return def
}

func TestZZBbvcReplay_ModelPrograms(t *testing.T) {
	seed := int64(zmEnvInt("VERIF_SEED", 0))
	programs := zmEnvInt("BBVC_PROGRAMS", 40)
	ops := zmEnvInt("BBVC_OPS", 60)
	prop := os.Getenv("BBVC_PROP")
	evals := 0
	for p := 0; p < programs; p++ {
		r := &zmRun{t: t, prop: prop, rng: rand.New(rand.NewSource(seed*1000003 + int64(p)))}
		r.program(p, ops)
		evals++
		if r.failed {
			break
		}
	}
	t.Logf("model programs: %d programs x %d ops, seed %d, prop filter %q", evals, ops, seed, prop)
}

func (r *zmRun) program(idx, ops int) {
	t := r.t
	dir := t.TempDir()
	path := filepath.Join(dir, "db")
	// InitialMmapSize is large so that a writer never has to remap while this goroutine holds read
	// transactions open (that would block by design); NoSync skips fdatasync only.
	opts := &Options{PageSize: 4096, FreelistType: FreelistArrayType, InitialMmapSize: 256 << 20, NoSync: r.rng.Intn(3) > 0}
	if r.rng.Intn(2) == 0 {
		opts.FreelistType = FreelistMapType
	}
	opts.NoFreelistSync = r.rng.Intn(3) == 0
	db, err := Open(path, 0600, opts)
	if err != nil {
		t.Fatal(err)
	}
	defer func() { db.Close() }()
	r.log("program %d: Open(freelist=%s, NoFreelistSync=%v)", idx, opts.FreelistType, opts.NoFreelistSync)
	committed := zmNew()
	var readers []*zmReader
	nreaders := 0
	maxHwm := uint64(0)

	checkReaders := func(when string) {
		for _, rd := range readers {
			if got := zmDumpTx(rd.tx); got != rd.snap {
				r.fail("C02", "reader #%d sees a different state %s\n--- snapshot at begin\n%s--- now\n%s", rd.id, when, zmClip(rd.snap), zmClip(got))
			}
		}
	}
	afterCommit := func() {
		// C04: a fresh read transaction sees the model
		_ = db.View(func(tx *Tx) error {
			if got, want := zmDumpTx(tx), zmDumpModel(committed); got != want {
				r.fail("C04", "state after commit differs from the model\n--- model\n%s--- real\n%s", zmClip(want), zmClip(got))
			}
			// C07: the integrity check accounts for every page
			n := 0
			for err := range tx.Check() {
				if n < 3 {
					r.fail("C07", "Tx.Check after commit: %v", err)
				}
				n++
			}
			if fi, err := os.Stat(path); err == nil && uint64(fi.Size()) < uint64(tx.meta.Pgid())*uint64(db.pageSize) {
				r.fail("C07", "file is %d bytes, shorter than the high-water mark %d pages", fi.Size(), tx.meta.Pgid())
			}
			if uint64(tx.meta.Pgid()) > maxHwm {
				maxHwm = uint64(tx.meta.Pgid())
			}
			return nil
		})
		st := db.Stats()
		if st.FreePageN != db.freelist.FreeCount() || st.PendingPageN != db.freelist.PendingCount() {
			r.fail("C07", "Stats free/pending %d/%d differ from the freelist %d/%d", st.FreePageN, st.PendingPageN, db.freelist.FreeCount(), db.freelist.PendingCount())
		}
		checkReaders("after a commit")
	}

	for step := 0; step < ops && !r.failed; {
		switch c := r.rng.Intn(100); {
		case c < 60: // a write transaction with a few operations
			tx, err := db.Begin(true)
			if err != nil {
				t.Fatal(err)
			}
			if len(readers) == 0 && db.freelist.PendingCount() != 0 {
				r.fail("C10", "no reader is open, yet %d pages are still pending when the next write transaction starts", db.freelist.PendingCount())
			}
			work := committed.clone()
			n := 1 + r.rng.Intn(8)
			r.log("Begin(true) txid=%d", tx.ID())
			for i := 0; i < n && !r.failed; i++ {
				r.op(tx, work)
				step++
			}
			if r.failed {
				_ = tx.Rollback()
				break
			}
			// read-your-writes
			if got, want := zmDumpTx(tx), zmDumpModel(work); got != want {
				r.fail("C04", "write transaction does not read its own writes\n--- model\n%s--- real\n%s", zmClip(want), zmClip(got))
			}
			if r.rng.Intn(5) == 0 {
				r.log("Rollback")
				if err := tx.Rollback(); err != nil {
					r.fail("C04", "Rollback = %v", err)
				}
				checkReaders("after a rollback")
				_ = db.View(func(tx *Tx) error {
					if got, want := zmDumpTx(tx), zmDumpModel(committed); got != want {
						r.fail("C04", "state after rollback differs from the last committed model\n--- model\n%s--- real\n%s", zmClip(want), zmClip(got))
					}
					return nil
				})
			} else {
				r.log("Commit")
				if err := tx.Commit(); err != nil {
					r.fail("C04", "Commit = %v", err)
					break
				}
				committed = work
				afterCommit()
			}
		case c < 72: // open a reader
			if len(readers) >= 3 {
				continue
			}
			tx, err := db.Begin(false)
			if err != nil {
				t.Fatal(err)
			}
			nreaders++
			rd := &zmReader{tx: tx, id: nreaders, snap: zmDumpModel(committed)}
			r.log("reader #%d begins at txid %d", rd.id, tx.ID())
			if got := zmDumpTx(tx); got != rd.snap {
				r.fail("C02", "reader #%d does not see the last committed state at begin\n--- model\n%s--- real\n%s", rd.id, zmClip(rd.snap), zmClip(got))
			}
			readers = append(readers, rd)
			step++
		case c < 84: // close a reader
			if len(readers) == 0 {
				continue
			}
			i := r.rng.Intn(len(readers))
			rd := readers[i]
			if got := zmDumpTx(rd.tx); got != rd.snap {
				r.fail("C02", "reader #%d sees a different state before closing\n--- snapshot\n%s--- now\n%s", rd.id, zmClip(rd.snap), zmClip(got))
			}
			r.log("reader #%d closes", rd.id)
			_ = rd.tx.Rollback()
			readers = append(readers[:i], readers[i+1:]...)
			step++
		case c < 89: // hot backup through an open read transaction
			var buf bytes.Buffer
			var size int64
			var snap string
			err := db.View(func(tx *Tx) error {
				size = tx.Size()
				snap = zmDumpTx(tx)
				_, err := tx.WriteTo(&buf)
				return err
			})
			r.log("WriteTo (size %d)", size)
			if err != nil {
				r.fail("C14", "WriteTo = %v", err)
			} else if int64(buf.Len()) != size {
				r.fail("C14", "WriteTo produced %d bytes, Tx.Size reported %d", buf.Len(), size)
			} else {
				cp := filepath.Join(dir, fmt.Sprintf("copy%d", step))
				_ = os.WriteFile(cp, buf.Bytes(), 0600)
				r.checkCopy("C14", cp, snap, "backup")
				_ = os.Remove(cp)
			}
			step++
		case c < 94: // compaction into an empty destination
			if len(readers) > 0 {
				continue // Compact opens its own read tx on src; fine, but keep remaps simple
			}
			before, _ := os.ReadFile(path)
			dstPath := filepath.Join(dir, fmt.Sprintf("compact%d", step))
			dst, err := Open(dstPath, 0600, &Options{PageSize: 4096})
			if err != nil {
				t.Fatal(err)
			}
			lim := int64([]int{0, 1, 4096, 20000, 1 << 20}[r.rng.Intn(5)])
			r.log("Compact(txMaxSize=%d)", lim)
			err = Compact(dst, db, lim)
			_ = dst.Close()
			if err != nil {
				r.fail("C15", "Compact = %v", err)
			} else {
				r.checkCopy("C15", dstPath, zmDumpModel(committed), "compacted copy")
				after, _ := os.ReadFile(path)
				if !bytes.Equal(before, after) {
					r.fail("C15", "Compact changed the source file")
				}
			}
			_ = os.Remove(dstPath)
			step++
		default: // reopen
			if len(readers) > 0 {
				continue
			}
			r.log("Close + reopen")
			if err := db.Close(); err != nil {
				t.Fatal(err)
			}
			if r.rng.Intn(2) == 0 {
				opts.FreelistType = FreelistArrayType
			} else {
				opts.FreelistType = FreelistMapType
			}
			db, err = Open(path, 0600, opts)
			if err != nil {
				r.fail("C04", "reopen = %v", err)
				return
			}
			afterCommit()
			step++
		}
	}
	for _, rd := range readers {
		if got := zmDumpTx(rd.tx); got != rd.snap {
			r.fail("C02", "reader #%d sees a different state at the end", rd.id)
		}
		_ = rd.tx.Rollback()
	}
	// C10: all readers are closed; the next write transaction can reuse everything released so far
	if !r.failed {
		tx, err := db.Begin(true)
		if err == nil {
			if n := db.freelist.PendingCount(); n != 0 {
				r.fail("C10", "all readers closed, yet %d pages are still pending when the next write transaction starts", n)
			}
			_ = tx.Rollback()
		}
	}
}

func zmClip(s string) string {
	if len(s) > 1500 {
		return s[:1500] + "...\n"
	}
	return s
}

// checkCopy opens a produced file and compares its content and accounting.
func (r *zmRun) checkCopy(prop, file, want, what string) {
	cp, err := Open(file, 0600, &Options{ReadOnly: true})
	if err != nil {
		r.fail(prop, "%s does not open: %v", what, err)
		return
	}
	defer cp.Close()
	_ = cp.View(func(tx *Tx) error {
		if got := zmDumpTx(tx); got != want {
			r.fail(prop, "%s content differs\n--- expected\n%s--- copy\n%s", what, zmClip(want), zmClip(got))
		}
		n := 0
		for err := range tx.Check() {
			if n < 3 {
				r.fail(prop, "%s: Tx.Check: %v", what, err)
			}
			n++
		}
		return nil
	})
}
