package bbolt

// Replay scenario for C18 (template "maxsize"): parameters come from the solver model or from the
// small-scope search; run through `go test -overlay` by bbvc (never written into /repo).

import (
	"encoding/json"
	"os"
	"path/filepath"
	"testing"
)

type zzMaxSizeParams struct {
	PageSize        int
	InitialMmapSize int
	MaxSize         int
	AllocSize       int
	ValueSizes      []int
}

func TestZZBbvcReplay_MaxSize(t *testing.T) {
	var cases []zzMaxSizeParams
	if s := os.Getenv("BBVC_PARAMS"); s != "" {
		var p zzMaxSizeParams
		if err := json.Unmarshal([]byte(s), &p); err != nil {
			t.Fatal(err)
		}
		cases = append(cases, p)
	} else {
		// small-scope search
		for _, ps := range []int{4096} {
			for _, imm := range []int{0, 1 << 20, 8 << 20, 32 << 20} {
				for _, max := range []int{64 << 10, 1 << 20, 3<<20 + 17, 20 << 20} {
					for _, as := range []int{0, 256 << 10, 16 << 20} {
						cases = append(cases, zzMaxSizeParams{ps, imm, max, as, []int{30 << 10, 300 << 10, 2 << 20}})
					}
				}
			}
		}
	}
	for _, c := range cases {
		path := filepath.Join(t.TempDir(), "db")
		db, err := Open(path, 0600, &Options{PageSize: c.PageSize, InitialMmapSize: c.InitialMmapSize, MaxSize: c.MaxSize})
		if err != nil {
			t.Logf("open %+v: %v", c, err)
			continue
		}
		if c.AllocSize > 0 {
			db.AllocSize = c.AllocSize
		}
		st, _ := os.Stat(path)
		start := st.Size()
		limit := int64(c.MaxSize)
		if start > limit {
			limit = start
		}
		for i, vs := range c.ValueSizes {
			err := db.Update(func(tx *Tx) error {
				b, err := tx.CreateBucketIfNotExists([]byte("b"))
				if err != nil {
					return err
				}
				return b.Put([]byte{byte('k'), byte(i)}, make([]byte, vs))
			})
			st, _ := os.Stat(path)
			if st.Size() > limit {
				t.Errorf("file grew to %d bytes > MaxSize %d (size at open %d) after Put of %d bytes (err=%v) with %+v", st.Size(), c.MaxSize, start, vs, err, c)
				break
			}
		}
		db.Close()
	}
}
