package bbolt

// Replay scenario for C19 (template "check-corrupt"): builds a consistent database, applies one structural
// corruption of a listed class to the in-memory accounting and requires Tx.Check to report a problem;
// also requires a clean report on the uncorrupted database. Run through `go test -overlay` by bbvc.

import (
	"path/filepath"
	"testing"

	"go.etcd.io/bbolt/internal/common"
)

func zzCheckErrs(tx *Tx) []string {
	var out []string
	for err := range tx.Check() {
		out = append(out, err.Error())
	}
	return out
}

func TestZZBbvcReplay_CheckCorrupt(t *testing.T) {
	for _, ft := range []FreelistType{FreelistArrayType, FreelistMapType} {
		path := filepath.Join(t.TempDir(), "db")
		db, err := Open(path, 0600, &Options{PageSize: 4096, FreelistType: ft})
		if err != nil {
			t.Fatal(err)
		}
		if err := db.Update(func(tx *Tx) error {
			b, err := tx.CreateBucket([]byte("b"))
			if err != nil {
				return err
			}
			if err := b.Put([]byte("big"), make([]byte, 3*4096)); err != nil {
				return err
			}
			for i := 0; i < 300; i++ {
				if err := b.Put([]byte{byte('k'), byte(i >> 8), byte(i)}, make([]byte, 100)); err != nil {
					return err
				}
			}
			return nil
		}); err != nil {
			t.Fatal(err)
		}
		// clean database: no report
		if err := db.View(func(tx *Tx) error {
			if errs := zzCheckErrs(tx); len(errs) != 0 {
				t.Errorf("[%s] clean database reported: %v", ft, errs)
			}
			return nil
		}); err != nil {
			t.Fatal(err)
		}
		// find a page with overflow
		var big *common.Page
		if err := db.View(func(tx *Tx) error {
			b := tx.Bucket([]byte("b"))
			tx.forEachPage(b.RootPage(), func(p *common.Page, _ int, _ []common.Pgid) {
				if p.Overflow() > 0 && big == nil {
					big = common.NewPage(p.Id(), p.Flags(), p.Count(), p.Overflow())
				}
			})
			return nil
		}); err != nil {
			t.Fatal(err)
		}
		if big == nil {
			t.Fatalf("[%s] no overflow page found", ft)
		}
		// corruption classes: an overflow page of a reachable page is free; the first page is free
		for _, off := range []common.Pgid{common.Pgid(big.Overflow()), 1, 0} {
			tx, err := db.Begin(true)
			if err != nil {
				t.Fatal(err)
			}
			db.freelist.Free(tx.meta.Txid(), common.NewPage(big.Id()+off, common.LeafPageFlag, 0, 0))
			errs := zzCheckErrs(tx)
			if len(errs) == 0 {
				t.Errorf("[%s] page %d (reachable page %d + %d of %d overflow pages) is in the freelist, but Tx.Check reported no problem", ft, big.Id()+off, big.Id(), off, big.Overflow())
			}
			_ = tx.Rollback()
		}
		// an allocated page that nothing references: unreachable unfreed
		tx, err := db.Begin(true)
		if err != nil {
			t.Fatal(err)
		}
		if _, err := tx.allocate(1); err != nil {
			t.Fatal(err)
		}
		if errs := zzCheckErrs(tx); len(errs) == 0 {
			t.Errorf("[%s] an allocated, unreferenced page below the high-water mark was not reported", ft)
		}
		_ = tx.Rollback()
		db.Close()
	}
}
