package freelist

// Bounded scenario for C12 (published v2 format of the freelist page): the bytes produced by Write are compared
// with an independent little-endian encoder, and hand-encoded pages are read back by Read, for both back ends:
// small lists (count in the 16-bit header field) and lists of 0xFFFF or more ids (header count = 0xFFFF, the
// first 8-byte element holds the NUMBER OF IDS, the ids follow).

import (
	"encoding/binary"
	"testing"
	"unsafe"

	"go.etcd.io/bbolt/internal/common"
)

func zz12Expected(ids []common.Pgid, pageID uint64) []byte {
	n := len(ids)
	body := n
	if n >= 0xFFFF {
		body = n + 1
	}
	b := make([]byte, 16+8*body)
	binary.LittleEndian.PutUint64(b[0:], pageID)
	binary.LittleEndian.PutUint16(b[8:], 0x10) // freelist page flag
	off := 16
	if n >= 0xFFFF {
		binary.LittleEndian.PutUint16(b[10:], 0xFFFF)
		binary.LittleEndian.PutUint64(b[off:], uint64(n))
		off += 8
	} else {
		binary.LittleEndian.PutUint16(b[10:], uint16(n))
	}
	for _, id := range ids {
		binary.LittleEndian.PutUint64(b[off:], uint64(id))
		off += 8
	}
	return b
}

func TestZZBbvcReplay_FreelistPageBytes(t *testing.T) {
	for _, mk := range []struct {
		name string
		new  func() Interface
	}{{"array", NewArrayFreelist}, {"hashmap", NewHashMapFreelist}} {
		for _, n := range []int{0, 1, 3, 1000, 0xFFFE, 0xFFFF, 0x10000, 70001} {
			ids := make([]common.Pgid, n)
			for i := range ids {
				ids[i] = common.Pgid(3 + 2*i) // non-adjacent: no span merging ambiguity
			}
			f := mk.new()
			f.Init(ids)
			size := 16 + 8*(n+2)
			buf := make([]byte, size)
			p := (*common.Page)(unsafe.Pointer(&buf[0]))
			p.SetId(7)
			f.Write(p)
			want := zz12Expected(ids, 7)
			got := buf[:len(want)]
			for i := range want {
				if got[i] != want[i] {
					t.Errorf("%s freelist with %d ids: byte %d of the written page is %#x, the v2 format says %#x (header count field %#x, first element %d)",
						mk.name, n, i, got[i], want[i], binary.LittleEndian.Uint16(buf[10:]), binary.LittleEndian.Uint64(buf[16:]))
					break
				}
			}
			// reading a hand-encoded page
			page := zz12Expected(ids, 9)
			page = append(page, make([]byte, 64)...)
			g := mk.new()
			g.Read((*common.Page)(unsafe.Pointer(&page[0])))
			if g.FreeCount() != n {
				t.Errorf("%s: Read of a v2 freelist page with %d ids yields %d free pages", mk.name, n, g.FreeCount())
			} else if n > 0 {
				out := make([]common.Pgid, n)
				g.Copyall(out)
				if out[0] != ids[0] || out[n-1] != ids[n-1] {
					t.Errorf("%s: Read of a v2 freelist page with %d ids yields ids %d..%d, want %d..%d", mk.name, n, out[0], out[n-1], ids[0], ids[n-1])
				}
			}
		}
	}
}
