#!/bin/bash
# copy the contract files (mirror in /verif/contracts/repo) into /repo and commit them as a hook commit
set -e
cd /verif/contracts/repo
find . -name zz_contracts_verif.go | while read f; do mkdir -p /repo/$(dirname $f); cp $f /repo/$f; done
cd /repo
if [ -n "$(git status --porcelain)" ]; then
  git add -A $(cd /verif/contracts/repo && find . -name zz_contracts_verif.go)
  git commit -qm "verif: contract files (comment-only, build tag verif) ${1:-update}"
  echo "committed $(git log --oneline | head -1)"
else
  echo "contracts already in sync"
fi
