#!/bin/bash
# run every claimed check (quick tier) on the current tree, regenerating all evidence files
cd /verif
fail=0
for p in $(python3 -c "import json; print(' '.join(c['property_id'] for c in json.load(open('/verif/MANIFEST.json'))['checks']))"); do
  out=$(./check $p ${1:-quick} 2>&1 | grep -E "VIOLATION|UNDECIDED|KNOWN-FINDING|$p ${1:-quick}:")
  echo "$out" | tail -3
  echo "$out" | grep -q VIOLATION && fail=1
done
exit $fail
