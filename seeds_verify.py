#!/usr/bin/env python3
"""Confirms the seeded breaking changes produced by the sub-agents and stages the confirmed ones under /verif/seeded/.

usage: seeds_verify.py stage  <src-dir> [ids...]   # src-dir/Cxx/mN/{patch.diff,meta.json,zz_demo*_test.go}
       seeds_verify.py suite  [ids...]            # run the repository's test suite with each staged seed applied (scratch worktree)
       seeds_verify.py checks [ids...]            # apply each staged seed to /repo, run the registered checks, restore /repo

Each seed ends up as /verif/seeded/<Cxx-mN>/{patch.diff, <demo test>, meta.json}; meta.json["confirmed"] records what was re-run here.
Scratch worktrees live under /tmp/sv and are removed after each step.
"""
import json, os, re, shutil, subprocess, sys, time

REPO = "/repo"
OUT = "/verif/seeded"
ENV = dict(os.environ, GOFLAGS="-mod=mod", GOPROXY="off", GOTOOLCHAIN="local",
           PATH="/opt/veriftools/go1.26.8/bin:" + os.environ["PATH"])


def sh(cmd, cwd=None, timeout=3600):
    p = subprocess.run(cmd, shell=True, cwd=cwd, env=ENV, capture_output=True, text=True, timeout=timeout)
    return p.returncode, p.stdout + p.stderr


def worktree(name):
    d = "/tmp/sv/" + name
    sh("git -C %s worktree remove --force %s" % (REPO, d))
    shutil.rmtree(d, ignore_errors=True)
    os.makedirs("/tmp/sv", exist_ok=True)
    rc, out = sh("git -C %s worktree add --detach %s HEAD" % (REPO, d))
    if rc != 0:
        raise SystemExit(out)
    return d


def rm_worktree(d):
    sh("git -C %s worktree remove --force %s" % (REPO, d))
    shutil.rmtree(d, ignore_errors=True)
    sh("git -C %s worktree prune" % REPO)


def demo_run(wt, seeddir, meta):
    demo = meta["demo_file"].split(" ")[0]
    if not os.path.exists(os.path.join(seeddir, demo)):
        demo = [f for f in os.listdir(seeddir) if f.endswith("_test.go")][0]
    meta["demo_file"] = demo
    ddir = meta.get("demo_dir", ".").split(" ")[0]
    if ddir.startswith("("):
        ddir = "."
    target = os.path.join(wt, ddir, demo)
    shutil.copy(os.path.join(seeddir, demo), target)
    names = re.findall(r"^func (Test\w+)\(", open(target).read(), re.M)
    rc, out = sh("go test -vet=off -count=1 -timeout 600s -run '^(%s)$' ./%s" % ("|".join(names), ddir), cwd=wt, timeout=900)
    os.remove(target)
    return rc, out


def stage(src, ids):
    for prop in sorted(os.listdir(src)):
        pd = os.path.join(src, prop)
        if not os.path.isdir(pd) or not re.match(r"C\d\d$", prop):
            continue
        for m in sorted(os.listdir(pd)):
            sd = os.path.join(pd, m)
            sid = "%s-%s" % (prop, m)
            if not os.path.isdir(sd) or (ids and sid not in ids):
                continue
            meta = json.load(open(os.path.join(sd, "meta.json")))
            if "demo_file" not in meta:
                cands = [f for f in os.listdir(sd) if f.endswith("_test.go")]
                meta["demo_file"] = cands[0]
            rec = {"seed": sid, "base_commit": sh("git -C %s rev-parse --short HEAD" % REPO)[1].strip()}
            wt = worktree(sid)
            try:
                rc, out = demo_run(wt, sd, meta)
                rec["demo_clean"] = "PASS" if rc == 0 else "FAIL"
                rec["demo_clean_tail"] = out[-400:] if rc != 0 else ""
                rc, out = sh("git apply %s" % os.path.join(sd, "patch.diff"), cwd=wt)
                rec["applies"] = rc == 0
                if rc != 0:
                    rec["apply_error"] = out[-400:]
                else:
                    rc, out = sh("go build ./... && go vet -tags verif ./... >/dev/null 2>&1; go build ./...", cwd=wt)
                    rec["builds"] = rc == 0
                    rc, out = demo_run(wt, sd, meta)
                    rec["demo_patched"] = "PASS" if rc == 0 else "FAIL"
                    rec["demo_patched_tail"] = out[-600:]
            finally:
                rm_worktree(wt)
            ok = rec.get("applies") and rec.get("builds") and rec["demo_clean"] == "PASS" and rec.get("demo_patched") == "FAIL"
            rec["confirmed_demo"] = bool(ok)
            print(sid, "confirmed" if ok else "NOT-CONFIRMED", {k: v for k, v in rec.items() if k in ("applies", "builds", "demo_clean", "demo_patched")}, flush=True)
            od = os.path.join(OUT, sid)
            os.makedirs(od, exist_ok=True)
            shutil.copy(os.path.join(sd, "patch.diff"), od)
            shutil.copy(os.path.join(sd, meta["demo_file"]), od)
            old = {}
            if os.path.exists(os.path.join(od, "meta.json")):
                old = json.load(open(os.path.join(od, "meta.json")))
            meta["property"] = prop
            meta["confirmed"] = dict(old.get("confirmed", {}), **rec)
            for k in ("checks",):
                if k in old:
                    meta[k] = old[k]
            json.dump(meta, open(os.path.join(od, "meta.json"), "w"), indent=1)


def staged(ids):
    for sid in sorted(os.listdir(OUT)):
        if ids and sid not in ids:
            continue
        if os.path.exists(os.path.join(OUT, sid, "meta.json")):
            yield sid


def suite(ids):
    for sid in staged(ids):
        od = os.path.join(OUT, sid)
        meta = json.load(open(os.path.join(od, "meta.json")))
        wt = worktree(sid)
        try:
            rc, out = sh("git apply %s" % os.path.join(od, "patch.diff"), cwd=wt)
            if rc != 0:
                print(sid, "does not apply")
                continue
            t0 = time.time()
            rc, out = sh("go test -vet=off -count=1 -timeout 25m ./... 2>&1 | grep -E '^(ok|FAIL|--- FAIL|panic)'", cwd=wt, timeout=3000)
            # the 8 tests of tests/failpoint fail in the recorded baseline too (gofail failpoints are not compiled in)
            bad = [l for l in out.splitlines() if not l.startswith("ok") and "tests/failpoint" not in l and l.strip() != "FAIL"
                   and not re.match(r"--- FAIL: (TestFailpoint_|TestIssue72|TestTx_Rollback_Freelist|TestDB_Open_InitialMmapSize)", l)]
            # TestDB_Open_InitialMmapSize is timing based and listed as flaky in the recorded baseline; when it is the
            # only failure the root package line "FAIL go.etcd.io/bbolt" is ignored too
            if all(re.match(r"FAIL\s+go.etcd.io/bbolt\s", l) for l in bad) and "TestDB_Open_InitialMmapSize" in out:
                bad = []
            oks = [l for l in out.splitlines() if l.startswith("ok")]
            passed = not bad and len(oks) >= 7
            out = "\n".join(bad) if bad else "ok packages: %d" % len(oks)
            meta.setdefault("confirmed", {})["suite_with_patch"] = "PASS" if passed else "FAIL: " + out[-800:]
            meta["confirmed"]["suite_wall_s"] = round(time.time() - t0)
            print(sid, "suite", "PASS" if passed else "FAIL", round(time.time() - t0), "s", flush=True)
            json.dump(meta, open(os.path.join(od, "meta.json"), "w"), indent=1)
        finally:
            rm_worktree(wt)


def checks(ids, props_override=None):
    if sh("git -C %s status --porcelain" % REPO)[1].strip():
        raise SystemExit("/repo has uncommitted changes")
    for sid in staged(ids):
        od = os.path.join(OUT, sid)
        meta = json.load(open(os.path.join(od, "meta.json")))
        props = props_override or [meta["property"]]
        rc, out = sh("git -C %s apply %s" % (REPO, os.path.join(od, "patch.diff")))
        if rc != 0:
            print(sid, "does not apply")
            continue
        res = {}
        try:
            for p in props:
                t0 = time.time()
                rc, out = sh("./check %s quick" % p, cwd="/verif", timeout=3600)
                lines = [l for l in out.splitlines() if re.match(r"VIOLATION|UNDECIDED|KNOWN-FINDING|\s+failed obligation|\s+bounded stand-in failed", l)]
                res[p] = {"exit": rc, "wall_s": round(time.time() - t0), "lines": [l[:300] for l in lines[:12]]}
                print(sid, p, "exit", rc, "|", "; ".join(l[:140] for l in lines[:3]), flush=True)
        finally:
            sh("git -C %s checkout -- . && git -C %s clean -fdq -e zz_contracts_verif.go" % (REPO, REPO))
        meta.setdefault("checks", {}).update(res)
        meta["detected_by"] = sorted(p for p, r in meta["checks"].items() if r["exit"] == 1)
        json.dump(meta, open(os.path.join(od, "meta.json"), "w"), indent=1)


def pchecks(ids, props_override=None, workers=3, clean=False):
    """like checks(), but every seed gets its own scratch worktree (BBVC_REPO) and output directory (BBVC_OUT), so
    several seeds run at once and /repo is never touched. With clean=True the unchanged tree is checked the same way."""
    from concurrent.futures import ThreadPoolExecutor
    import threading
    lock = threading.Lock()

    def one(sid):
        od = os.path.join(OUT, sid)
        meta = json.load(open(os.path.join(od, "meta.json"))) if not sid.startswith("CLEAN") else {"property": sid[6:]}
        props = [meta["property"]] if sid.startswith("CLEAN-") else (props_override or [meta["property"]])
        with lock:
            wt = worktree(sid)
        res = {}
        try:
            if not sid.startswith("CLEAN"):
                rc, out = sh("git apply %s" % os.path.join(od, "patch.diff"), cwd=wt)
                if rc != 0:
                    print(sid, "does not apply", out[-200:], flush=True)
                    return
            # always the newest contract files (the mirror in /verif), committed to /repo or not
            sh("cd /verif/contracts/repo && find . -name zz_contracts_verif.go | while read f; do mkdir -p %s/$(dirname $f); cp $f %s/$f; done" % (wt, wt))
            outd = "/tmp/sv/out-" + sid
            shutil.rmtree(outd, ignore_errors=True)
            os.makedirs(outd)
            for p in props:
                t0 = time.time()
                rc, out = sh("BBVC_REPO=%s BBVC_OUT=%s ./check %s quick" % (wt, outd, p), cwd="/verif", timeout=3600)
                lines = [l for l in out.splitlines() if re.match(r"VIOLATION|UNDECIDED|KNOWN-FINDING|\s+failed obligation|\s+bounded stand-in failed", l)]
                res[p] = {"exit": rc, "wall_s": round(time.time() - t0), "lines": [l[:300] for l in lines[:12]]}
                print(sid, p, "exit", rc, round(time.time() - t0), "s |", "; ".join(l[:160] for l in lines[:4]), flush=True)
            shutil.rmtree(outd, ignore_errors=True)
        finally:
            with lock:
                rm_worktree(wt)
        if not sid.startswith("CLEAN"):
            meta.setdefault("checks", {}).update(res)
            meta["detected_by"] = sorted(p for p, r in meta["checks"].items() if r["exit"] == 1)
            json.dump(meta, open(os.path.join(od, "meta.json"), "w"), indent=1)

    todo = ["CLEAN-" + p for p in (props_override or ["C%02d" % i for i in range(1, 21)])] if clean else list(staged(ids))
    with ThreadPoolExecutor(max_workers=workers) as ex:
        list(ex.map(one, todo))


def table():
    rows = []
    for sid in staged([]):
        m = json.load(open(os.path.join(OUT, sid, "meta.json")))
        c = m.get("confirmed", {})
        files = ", ".join(m.get("files_changed", []))[:60]
        det = []
        for p, r in sorted(m.get("checks", {}).items()):
            if r["exit"] == 1:
                first = next((l for l in r["lines"] if "failed obligation" in l or "bounded stand-in failed" in l), "")
                first = first.strip().replace("failed obligation ", "").replace("bounded stand-in failed on the real code: ", "B: ")
                det.append("%s: `%s`" % (p, first.split(" (")[0][:90]))
            elif r["exit"] != 0:
                det.append("%s: exit %d" % (p, r["exit"]))
        missed = [p for p, r in m.get("checks", {}).items() if r["exit"] == 0]
        suite = c.get("suite_with_patch") or ""
        if suite.startswith("PASS"):
            sl = "pass (re-run here)"
        elif suite.startswith("FAIL") and ("db_failpoint_test" in suite or "TestDB_Open_InitialMmapSize" in suite):
            sl = "pass except tests that fail in the recorded baseline too (failpoint tests, TestDB_Open_InitialMmapSize)"
        elif suite:
            sl = suite[:40]
        else:
            sl = "pass per the sub-agent's suite.log (not re-run here)"
        rows.append("| %s | %s | %s | %s | %s |" % (sid, files, sl, "<br>".join(det) if det else "—", ", ".join(missed) if missed else ""))
    print("| seed | files changed | repo suite with patch | caught by (first failing obligation) | registered check that missed it |")
    print("|---|---|---|---|---|")
    print("\n".join(rows))


if __name__ == "__main__":
    cmd = sys.argv[1]
    if cmd == "table":
        table()
        sys.exit(0)
    if cmd == "stage":
        stage(sys.argv[2], sys.argv[3:])
    elif cmd == "suite":
        suite(sys.argv[2:])
    elif cmd in ("pchecks", "pclean"):
        args = sys.argv[2:]
        props = [a[2:] for a in args if a.startswith("p=")]
        w = [int(a[2:]) for a in args if a.startswith("w=")]
        pchecks([a for a in args if a[1:2] != "="], props or None, w[0] if w else 3, clean=(cmd == "pclean"))
    elif cmd == "checks":
        args = sys.argv[2:]
        props = [a[2:] for a in args if a.startswith("p=")]
        checks([a for a in args if not a.startswith("p=")], props or None)
