#!/bin/bash
set -e
export GOFLAGS=-mod=mod GOPROXY=off GOSUMDB=off GOTOOLCHAIN=local
export PATH=/opt/veriftools/go1.26.8/bin:$PATH
mkdir -p /verif/bin /verif/evidence /verif/replays
cd /verif/bbvc && go build -o /verif/bin/bbvc .
echo "bbvc built"
