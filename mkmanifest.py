#!/usr/bin/env python3
# Regenerates /verif/MANIFEST.json from the tables below (kept in one place so the manifest is always valid).
import json, subprocess

ALL = ["C%02d" % i for i in range(1, 21)]

# property -> (level text, level note, technique, design_ref)
CLAIMED = {
 "C09": ("Deductive proof of per-function contracts on the real freelist code (go/ssa -> weakest-precondition VCs -> z3/cvc5), for all inputs and loop iterations. Covers the functions listed in the evidence file; the remaining allocator functions are named there as unchecked callees.",
         "Trusted: VC generator, solvers, A-nil, sort.Sort/sort.Search specs, unsafe page-view helpers (see evidence.trusted_base and DESIGN.md §5).",
         "contract-based deductive verification (SSA VC generation + SMT)", "§6 C09"),
 "C18": ("Deductive proof that the only ftruncate site (DB.grow) never extends the file beyond MaxSize, that DB.allocate leaves the high-water mark untouched on error and keeps (hwm+1)*pageSize <= MaxSize when it moves it, with mmapSize/growSize verified against functional contracts (bit-precise int arithmetic, nonlinear size products). Refutations are replayed on the real code by the maxsize scenario.",
         "Trusted: os.File.Truncate sets the length (A-os-io), DB.fileSize reports it; DB.mmap's contract is assumed (opaque); the freelist interface contract at the Allocate call site.",
         "contract-based deductive verification (SSA VC generation + SMT)", "§6 C18"),
}
NA_REASON = {}

def main():
    commits = []
    try:
        out = subprocess.run(["git","-C","/repo","log","--format=%H %s"],capture_output=True,text=True).stdout
        for l in out.splitlines():
            h, s = l.split(" ",1)
            if s.startswith("verif:"): commits.append(h)
    except Exception: pass
    checks = []
    for p in ALL:
        if p not in CLAIMED: continue
        text, note, tech, ref = CLAIMED[p]
        checks.append({
            "property_id": p,
            "quick_cmd": "./check %s quick" % p,
            "thorough_cmd": "./check %s thorough" % p,
            "evidence_file": "/verif/evidence/%s.json" % p,
            "replay_cmd_template": "./check %s --replay {path}" % p,
            "engine": "bbvc",
            "level_claimed": {"category": "proof", "text": text, "design_ref": ref},
            "level_note": note,
            "technique": tech,
        })
    na = [{"property_id": p, "reason": NA_REASON.get(p, "contracts for this property are not yet discharged by the framework (work in progress); no claim is made")} for p in ALL if p not in CLAIMED]
    m = {
        "version": 1,
        "setup_cmd": "./setup.sh",
        "hooks": {
            "guard": "verif",
            "enable": "go build -tags verif (contract files zz_contracts_verif.go are comment-only and compiled only with the tag; the engine loads /repo with -tags=verif)",
            "baseline_off_cmd": "cd /repo && GOFLAGS=-mod=mod go test -json -vet=off -count=1 -timeout 25m ./...",
            "source_commits": commits,
            "add_only": True,
        },
        "engines": [{"name": "bbvc", "path": "/verif/bbvc", "serves_properties": sorted(CLAIMED), "kind_free_text": "contract-based deductive verifier for Go written for this task: go/ssa -> passive guarded commands -> SMT-LIB VCs discharged by z3 4.8.12 / z3 5.1.0 / cvc5 1.0 (raced); plus constant evaluation (layout) and effect inference back ends"}],
        "checks": checks,
        "not_applicable": na,
        "notes": "See DESIGN.md. Contracts live in /repo/**/zz_contracts_verif.go (tag verif) with a byte-identical mirror under /verif/contracts/repo.",
    }
    json.dump(m, open("/verif/MANIFEST.json","w"), indent=1)
    print("MANIFEST: %d checks, %d not_applicable" % (len(checks), len(na)))

if __name__ == "__main__":
    main()
