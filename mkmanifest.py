#!/usr/bin/env python3
# Regenerates /verif/MANIFEST.json from the tables below (kept in one place so the manifest is always valid).
import json, subprocess

ALL = ["C%02d" % i for i in range(1, 21)]

# property -> (level text, level note, technique, design_ref)
CLAIMED = {
 "C09": ("Deductive proof of per-function contracts on the real freelist code (go/ssa -> weakest-precondition VCs -> z3/cvc5), for all inputs and loop iterations. Covers the functions listed in the evidence file; the remaining allocator functions are named there as unchecked callees.",
         "Trusted: VC generator, solvers, A-nil, sort.Sort/sort.Search specs, unsafe page-view helpers (see evidence.trusted_base and DESIGN.md §5).",
         "contract-based deductive verification (SSA VC generation + SMT)", "§6 C09"),
 "C18": ("Deductive proof that the only ftruncate site (DB.grow) never extends the file beyond MaxSize, that DB.allocate leaves the high-water mark untouched on error and keeps (hwm+1)*pageSize <= MaxSize when it moves it, with mmapSize/growSize verified against functional contracts (bit-precise int arithmetic, nonlinear size products). Refutations are replayed on the real code by the maxsize scenario.",
         "Trusted: os.File.Truncate sets the length (A-os-io), DB.fileSize reports it; DB.mmap's contract is assumed (opaque); the freelist interface contract at the Allocate call site.",
         "contract-based deductive verification (SSA VC generation + SMT)", "§6 C18"),
 "C12": ("Layout obligations (struct sizes, field offsets and widths, flag values, magic, version, checksum range) evaluated from go/types for gc/amd64 and compared with the published v2 numbers written in the contracts; deductive proof of Meta.Write (slot = txid mod 2, meta flag, checksum recomputed, exact struct copy behind the page header) and Meta.Validate.",
         "Trusted: Meta.Sum64 = FNV-1a over the first 56 bytes as a function of the nine fields stored there (range checked by a K obligation), Page.Meta aliasing (A-unsafe), amd64 little-endian. Inode (de)serialisation, freelist page encoding and DB.init are not yet under contract (listed in DESIGN.md).",
         "contract-based deductive verification + constant evaluation of layout obligations", "§6 C12"),
 "C11": ("Deductive proof of Meta.Validate (nil iff magic, version and checksum match; error precedence), DB.meta (newest valid meta, fallback to the other, panic only if both invalid), and the page-size probes getPageSize / getPageSizeFromFirstMeta / getPageSizeFromSecondMeta (a size is returned only from a validated meta; all 15 probe offsets are read); QF_BV lemma: one FNV-1a step is injective in the byte and in the state, so any single altered byte changes the checksum.",
         "Trusted: os.File.ReadAt/Stat, pageInBuffer/Page.Meta aliasing (A-unsafe), hash/fnv = FNV-1a-64, A-hash for multi-byte torn writes. The validation tail of DB.mmap and Open's error paths are not yet under contract.",
         "contract-based deductive verification (SSA VC generation + SMT, QF_BV lemma)", "§6 C11"),
 "C01": ("Deductive proof of the commit protocol on the real Tx.Commit/write/writeMeta/commitFreelist/DB.grow code over a ghost disk model (unsynced-write counter, last write offset, sync counter): the data fdatasync succeeds before the meta page is written (precondition of writeMeta), Commit returns nil only with unsynced == 0, the last write of a successful commit is the meta page at slot txid mod 2, every error return rolls back exactly once, Meta.Write recomputes the checksum.",
         "Trusted: writeAt/fdatasync/Truncate semantics (A-os-io), sector atomicity and A-hash for torn metas, A-cow/A-tree (Bucket.spill/rebalance contracts are assumed), user commit handlers touch the database only through the public API (A-user). The crash-image lemma itself (recovered state = last acknowledged or in-flight) is argued in DESIGN.md from these obligations, not machine-checked.",
         "contract-based deductive verification (SSA VC generation + SMT, ghost I/O state)", "§6 C01"),
 "C03": ("Deductive proof of the writer-lock typestate and transaction life cycle on the real code: beginRWTx/beginTx/Begin (lock acquired and released on every path, txid = newest meta txid + 1 for writers, snapshot txid for readers, registration under metalock), Tx.init, Commit/Rollback/rollback/close (writer lock released exactly once, ErrTxClosed/ErrTxNotWritable paths), DB.Update and its deferred rollback closure (error from fn => rollback and that error returned; lock released on every return).",
         "Sequential lock-state model of sync.Mutex/RWMutex (A-lib, A-conc): goroutine schedules, data races beyond the lock discipline and lost wake-ups are not decided. User callbacks assumed to use only the public API (A-user).",
         "contract-based deductive verification (SSA VC generation + SMT, ghost lock state and call counters)", "§6 C03"),
 "C06": ("Deductive proof that the meta page is written to slot txid mod 2 (Meta.Write, Tx.writeMeta offset = (txid mod 2)*pageSize, one page long), that a writer's txid is the newest committed txid + 1 (Tx.init, so the slot differs from the newest meta's), that DB.allocate hands out either a freelist run or the pages at the old high-water mark and moves the mark by exactly count, and that shared.Free makes a page and its overflow pending and never free.",
         "A-cow (tree code frees only unreferenced pages) and the per-page offsets of Tx.write's data writes are not under contract; freelist interface contracts are assumed at call sites in package bbolt.",
         "contract-based deductive verification (SSA VC generation + SMT)", "§6 C06"),
 "C08": ("Deductive proof on the real code that every error return of Tx.Commit is preceded by exactly one physical Tx.rollback (never the non-physical one), that commitFreelist rolls back on its own error path, that rollback calls freelist.Rollback(txid) and then reloads the freelist from the freelist page named by the newest valid meta (or by a scan when not synced) exactly once, releases the writer lock and leaves disk counters untouched; DB.allocate leaves the high-water mark unchanged on error.",
         "Trusted: A-os-io, A-os-mmap; Bucket.spill/rebalance/DB.mmap/DB.freepages contracts assumed (opaque). Known finding D3 (failed final sync after the meta write) is documented in DESIGN.md; its relational obligation is not expressible with the current ghost state and is not claimed.",
         "contract-based deductive verification (SSA VC generation + SMT, ghost call counters)", "§6 C08"),
 "C16": ("Deductive proof of batch.run on the real code with a higher-order call protocol (Update invokes fn at most once; safelyCall returns fn's result): the failure index is set only by the attempt that just ran and is in range, the failing call is removed, batchMu is released; effect obligations: batch.run is reachable only through trigger's sync.Once, trigger only from Batch and the timer.",
         "A-lib (sync.Once, time.AfterFunc), A-conc (timer vs size trigger interleavings only through Once), user functions use only the public API (A-user). Exactly-once delivery of results is argued from the loop structure, the per-call send counter is not yet an obligation.",
         "contract-based deductive verification (SSA VC generation + SMT) + effect inference", "§6 C16"),
 "C17": ("Deductive proof of flock (LOCK_NB|LOCK_EX iff exclusive else LOCK_NB|LOCK_SH on every attempt; nil only after flock(2) returned nil), funlock, DB.close (unlock unless read-only, file closed once), DB.Open (O_RDONLY and no O_CREATE for read-only, O_RDWR|O_CREATE otherwise; shared lock for read-only, exclusive otherwise; read-only open starts no write transaction), DB.beginRWTx (read-only database refuses write transactions before taking any lock); effect obligations over the SSA call graph: mmap is called with PROT_READ, the only callers of writeAt / Truncate / flock / funlock are the expected ones, every CLI inspection command opens with ReadOnly:true, dump/page/page-item reach no write primitive.",
         "Trusted: flock(2)/mmap(2)/O_RDONLY kernel semantics (A-os-flock, A-os-mmap), cross-process behaviour and timing are not decided. Several preconditions inside Open are skipped (listed in the evidence) because sync.Pool and logger callbacks are outside the subset.",
         "contract-based deductive verification (SSA VC generation + SMT) + effect inference over the SSA call graph", "§6 C17"),
 "C19": ("Deductive proof of verifyPageReachable (every page of an overflow run: already-reachable, free, out-of-bounds or wrongly typed pages each force a report; a clean page forces none — 'and only that'), verifyKeyOrder (each of the four ordering violations forces a report, none of them forces silence), the CLI closure of `bbolt check` (any received problem => ErrCorrupt, none => nil) and main (non-nil command error => os.Exit with non-zero status). A bounded scenario on the real code stands in when a function cannot be brought within reach.",
         "Traversal coverage of forEachPage/ForEachBucket (A-tree) and Tx.check's own loops are not under contract; channel receives are havoc with a ghost receive counter.",
         "contract-based deductive verification (SSA VC generation + SMT, ghost send/receive logs)", "§6 C19"),
 "C13": ("Deductive proof that the freelist is loaded exactly once (sync.Once protocol) and from the right source: DB.loadFreelist reads page(meta.freelist) when the freelist is persisted and otherwise initialises from the scan (freepages); Tx.rollback reloads with Reload/NoSyncReload by the same test; Open probes the page size from the meta pages whenever the file exists (an explicit Options.PageSize is not trusted). Both back ends are reached only through the one freelist interface contract.",
         "That logical content is independent of page size, of which free run the allocator hands out and of map size is tree-level and not decided (A-tree); freepages' traversal is assumed (opaque contract).",
         "contract-based deductive verification (SSA VC generation + SMT, ghost call counters)", "§6 C13"),
}
NA_REASON = {}

def main():
    commits = []
    try:
        out = subprocess.run(["git","-C","/repo","log","--format=%H %s"],capture_output=True,text=True).stdout
        for l in out.splitlines():
            h, s = l.split(" ",1)
            if s.startswith("verif:"): commits.append(h)
    except Exception: pass
    checks = []
    for p in ALL:
        if p not in CLAIMED: continue
        text, note, tech, ref = CLAIMED[p]
        checks.append({
            "property_id": p,
            "quick_cmd": "./check %s quick" % p,
            "thorough_cmd": "./check %s thorough" % p,
            "evidence_file": "/verif/evidence/%s.json" % p,
            "replay_cmd_template": "./check %s --replay {path}" % p,
            "engine": "bbvc",
            "level_claimed": {"category": "proof", "text": text, "design_ref": ref},
            "level_note": note,
            "technique": tech,
        })
    na = [{"property_id": p, "reason": NA_REASON.get(p, "contracts for this property are not yet discharged by the framework (work in progress); no claim is made")} for p in ALL if p not in CLAIMED]
    m = {
        "version": 1,
        "setup_cmd": "./setup.sh",
        "hooks": {
            "guard": "verif",
            "enable": "go build -tags verif (contract files zz_contracts_verif.go are comment-only and compiled only with the tag; the engine loads /repo with -tags=verif)",
            "baseline_off_cmd": "cd /repo && GOFLAGS=-mod=mod go test -json -vet=off -count=1 -timeout 25m ./...",
            "source_commits": commits,
            "add_only": True,
        },
        "engines": [{"name": "bbvc", "path": "/verif/bbvc", "serves_properties": sorted(CLAIMED), "kind_free_text": "contract-based deductive verifier for Go written for this task: go/ssa -> passive guarded commands -> SMT-LIB VCs discharged by z3 4.8.12 / z3 5.1.0 / cvc5 1.0 (raced); plus constant evaluation (layout) and effect inference back ends"}],
        "checks": checks,
        "not_applicable": na,
        "notes": "See DESIGN.md. Contracts live in /repo/**/zz_contracts_verif.go (tag verif) with a byte-identical mirror under /verif/contracts/repo.",
    }
    json.dump(m, open("/verif/MANIFEST.json","w"), indent=1)
    print("MANIFEST: %d checks, %d not_applicable" % (len(checks), len(na)))

if __name__ == "__main__":
    main()
