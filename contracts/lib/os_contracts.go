//go:build verif

package lib

// Trusted contracts of standard-library / OS primitives (A-os-io, A-lib). Comments only.
// Ghost state of the file system model (DESIGN.md §2.6):
//@ ghost var flen int          -- length of the data file

//@ func os.(*File).Truncate
//@   trusted
//@   returns (err)
//@   ensures err == nil ==> flen == size
//@   ensures err != nil ==> flen == old(flen)
//@   modifies flen

//@ func golang.org/x/sys/unix.Mmap
//@   trusted
//@   returns (data, err)
//@   ensures err == nil ==> len(data) == length && data != nil
//@   modifies nothing

//@ ghost var nreads int         -- number of ReadAt calls issued so far
//@ ghost var lastreadoff int    -- offset of the most recent ReadAt

//@ func os.(*File).ReadAt
//@   trusted
//@   returns (n, err)
//@   ensures nreads == old(nreads) + 1 && lastreadoff == off
//@   ensures 0 <= n && n <= len(b)
//@   modifies nreads, lastreadoff, elems(b)

//@ func os.(*File).Stat
//@   trusted
//@   returns (fi, err)
//@   modifies nothing

//@ func io/fs.FileInfo.Size
//@   trusted
//@   ensures result == flen && flen >= 0
//@   modifies nothing

// ---------------------------------------------------------------- locks (sequential lock-state model; A-lib sync, A-conc)
//@ ghost field sync.Mutex.held bool
//@ ghost field sync.RWMutex.wheld bool
//@ ghost field sync.RWMutex.rcount int

//@ func sync.(*Mutex).Lock
//@   trusted
//@   ensures m.held
//@   modifies m.held

//@ func sync.(*Mutex).Unlock
//@   trusted
//@   requires m.held
//@   ensures !m.held
//@   modifies m.held

//@ func sync.(*RWMutex).Lock
//@   trusted
//@   ensures rw.wheld
//@   modifies rw.wheld

//@ func sync.(*RWMutex).Unlock
//@   trusted
//@   requires rw.wheld
//@   ensures !rw.wheld
//@   modifies rw.wheld

//@ func sync.(*RWMutex).RLock
//@   trusted
//@   ensures rw.rcount == old(rw.rcount) + 1
//@   modifies rw.rcount

//@ func sync.(*RWMutex).RUnlock
//@   trusted
//@   requires rw.rcount >= 1
//@   ensures rw.rcount == old(rw.rcount) - 1
//@   modifies rw.rcount

// ---------------------------------------------------------------- disk model (A-os-io)
//@ ghost var unsynced int       -- number of writeAt calls since the last successful fdatasync
//@ ghost var nwrites int        -- number of writeAt calls issued so far
//@ ghost var lastwriteoff int   -- offset of the most recent writeAt
//@ ghost var lastwritelen int   -- length of the most recent writeAt
//@ ghost var nsyncs int         -- number of successful fdatasync calls
//@ ghost var lastwritearr int   -- backing array of the buffer of the most recent writeAt

// ---------------------------------------------------------------- process exit status (C19)
//@ ghost var execok bool        -- the most recent cobra Execute returned nil

//@ func github.com/spf13/cobra.(*Command).Execute
//@   trusted
//@   returns (err)
//@   ensures execok == (err == nil)
//@   modifies execok

//@ func os.Exit
//@   trusted
//@   requires [status] execok || code != 0
//@   ensures false
//@   modifies nothing

// ---------------------------------------------------------------- advisory file locks (A-os-flock)
//@ ghost var lastflockop int     -- operation argument of the most recent flock(2)
//@ ghost var flockok bool        -- the most recent flock(2) returned nil
//@ ghost var nflock int          -- number of flock(2) calls

//@ func syscall.Flock
//@   trusted
//@   returns (err)
//@   ensures lastflockop == how && flockok == (err == nil) && nflock == old(nflock) + 1
//@   modifies lastflockop, flockok, nflock

//@ func os.(*File).Fd
//@   trusted
//@   modifies nothing

//@ func os.(*File).Close
//@   trusted
//@   returns (err)
//@   modifies nothing

//@ func os.(*File).Name
//@   trusted
//@   modifies nothing

//@ func time.Sleep
//@   trusted
//@   modifies nothing

//@ ghost field sync.Once.done bool

//@ func sync.(*Once).Do
//@   trusted
//@   invokes f
//@   ensures invoked(f) == !old(o.done) && o.done
//@   modifies o.done
