//go:build verif

package lib

// Trusted contracts of standard-library / OS primitives (A-os-io, A-lib). Comments only.
// Ghost state of the file system model (DESIGN.md §2.6):
//@ ghost var flen int          -- length of the data file

//@ func os.(*File).Truncate
//@   trusted
//@   returns (err)
//@   ensures err == nil ==> flen == size
//@   ensures err != nil ==> flen == old(flen)
//@   modifies flen

//@ func golang.org/x/sys/unix.Mmap
//@   trusted
//@   returns (data, err)
//@   ensures err == nil ==> len(data) == length && data != nil
//@   modifies nothing

//@ ghost var nreads int         -- number of ReadAt calls issued so far
//@ ghost var lastreadoff int    -- offset of the most recent ReadAt

//@ func os.(*File).ReadAt
//@   trusted
//@   returns (n, err)
//@   ensures nreads == old(nreads) + 1 && lastreadoff == off
//@   ensures 0 <= n && n <= len(b)
//@   modifies nreads, lastreadoff, elems(b)

//@ func os.(*File).Stat
//@   trusted
//@   returns (fi, err)
//@   modifies nothing

//@ func io/fs.FileInfo.Size
//@   trusted
//@   ensures result == flen && flen >= 0
//@   modifies nothing
