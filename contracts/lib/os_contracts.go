//go:build verif

package lib

// Trusted contracts of standard-library / OS primitives (A-os-io, A-lib). Comments only.
// Ghost state of the file system model (DESIGN.md §2.6):
//@ ghost var flen int          -- length of the data file

//@ func os.(*File).Truncate
//@   trusted
//@   returns (err)
//@   ensures err == nil ==> flen == size
//@   ensures err != nil ==> flen == old(flen)
//@   modifies flen

//@ func golang.org/x/sys/unix.Mmap
//@   trusted
//@   returns (data, err)
//@   ensures err == nil ==> len(data) == length && data != nil
//@   modifies nothing
