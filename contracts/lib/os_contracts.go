//go:build verif

package lib

// Trusted contracts of standard-library / OS primitives (A-os-io, A-lib). Comments only.
// Ghost state of the file system model (DESIGN.md §2.6):
//@ ghost var flen int          -- length of the data file

//@ func os.(*File).Truncate
//@   trusted
//@   returns (err)
//@   ensures err == nil ==> flen == size
//@   ensures err != nil ==> flen == old(flen)
//@   modifies flen

//@ func golang.org/x/sys/unix.Mmap
//@   trusted
//@   returns (data, err)
//@   ensures err == nil ==> len(data) == length && data != nil
//@   modifies nothing

//@ ghost var nreads int         -- number of ReadAt calls issued so far
//@ ghost var lastreadoff int    -- offset of the most recent ReadAt

//@ func os.(*File).ReadAt
//@   trusted
//@   returns (n, err)
//@   ensures nreads == old(nreads) + 1 && lastreadoff == off
//@   ensures 0 <= n && n <= len(b)
//@   modifies nreads, lastreadoff, elems(b)

//@ func os.(*File).Stat
//@   trusted
//@   returns (fi, err)
//@   modifies nothing

//@ func io/fs.FileInfo.Size
//@   trusted
//@   ensures result == flen && flen >= 0
//@   modifies nothing

// ---------------------------------------------------------------- locks (sequential lock-state model; A-lib sync, A-conc)
//@ ghost field sync.Mutex.held bool
//@ ghost field sync.RWMutex.wheld bool
//@ ghost field sync.RWMutex.rcount int

//@ func sync.(*Mutex).Lock
//@   trusted
//@   ensures m.held
//@   modifies m.held

//@ func sync.(*Mutex).Unlock
//@   trusted
//@   requires m.held
//@   ensures !m.held
//@   modifies m.held

//@ func sync.(*RWMutex).Lock
//@   trusted
//@   ensures rw.wheld
//@   modifies rw.wheld

//@ func sync.(*RWMutex).Unlock
//@   trusted
//@   requires rw.wheld
//@   ensures !rw.wheld
//@   modifies rw.wheld

//@ func sync.(*RWMutex).RLock
//@   trusted
//@   ensures rw.rcount == old(rw.rcount) + 1
//@   modifies rw.rcount

//@ func sync.(*RWMutex).RUnlock
//@   trusted
//@   requires rw.rcount >= 1
//@   ensures rw.rcount == old(rw.rcount) - 1
//@   modifies rw.rcount

// ---------------------------------------------------------------- disk model (A-os-io)
//@ ghost var unsynced int       -- number of writeAt calls since the last successful fdatasync
//@ ghost var nwrites int        -- number of writeAt calls issued so far
//@ ghost var lastwriteoff int   -- offset of the most recent writeAt
//@ ghost var lastwritelen int   -- length of the most recent writeAt
//@ ghost var nsyncs int         -- number of successful fdatasync calls
//@ ghost var lastwritearr int   -- backing array of the buffer of the most recent writeAt

// ---------------------------------------------------------------- process exit status (C19)
//@ ghost var execok bool        -- the most recent cobra Execute returned nil

//@ func github.com/spf13/cobra.(*Command).Execute
//@   trusted
//@   returns (err)
//@   ensures execok == (err == nil)
//@   modifies execok

//@ func os.Exit
//@   trusted
//@   requires [status] execok || code != 0
//@   ensures false
//@   modifies nothing

// ---------------------------------------------------------------- advisory file locks (A-os-flock)
//@ ghost var lastflockop int     -- operation argument of the most recent flock(2)
//@ ghost var flockok bool        -- the most recent flock(2) returned nil
//@ ghost var nflock int          -- number of flock(2) calls

//@ func syscall.Flock
//@   trusted
//@   returns (err)
//@   ensures lastflockop == how && flockok == (err == nil) && nflock == old(nflock) + 1
//@   modifies lastflockop, flockok, nflock

//@ func os.(*File).Fd
//@   trusted
//@   modifies nothing

//@ func os.(*File).Close
//@   trusted
//@   returns (err)
//@   modifies nothing

//@ func os.(*File).Name
//@   trusted
//@   modifies nothing

//@ func time.Sleep
//@   trusted
//@   modifies nothing

//@ ghost field sync.Once.done bool

//@ func sync.(*Once).Do
//@   trusted
//@   invokes f
//@   ensures invoked(f) == !old(o.done) && o.done
//@   modifies o.done

// ---------------------------------------------------------------- io model for hot backups (C14, A-lib io)
// Every Write on an io.Writer is logged by ordinal: what page header / meta it carried and how many bytes.
//@ ghost var wcount int                       -- number of Write calls so far
//@ ghost var wbytes int                       -- bytes accepted by the writer so far
//@ ghost var wpageid mapto[int,int]           -- page id in the header of the buffer of the k-th Write
//@ ghost var wflags mapto[int,int]            -- page flags
//@ ghost var wtxid mapto[int,int]             -- txid of the meta behind that header
//@ ghost var wroot mapto[int,int]             -- root page of that meta
//@ ghost var wfreelist mapto[int,int]         -- freelist page of that meta
//@ ghost var wpgid mapto[int,int]             -- high-water mark of that meta
//@ ghost var wvalid mapto[int,bool]           -- the meta behind that header validates
//@ ghost var wlen mapto[int,int]              -- length of the buffer
//@ ghost var sroff int                        -- offset of the most recent SectionReader
//@ ghost var srlen int                        -- length of the most recent SectionReader
//@ ghost var srfile int                       -- file of the most recent SectionReader
//@ ghost var copyn int                        -- byte count requested from the most recent io.CopyN

//@ func io.Writer.Write
//@   trusted
//@   returns (n, err)
//@   ensures wcount == old(wcount) + 1 && 0 <= n && n <= len(p) && wbytes == old(wbytes) + n
//@   ensures err == nil ==> n == len(p)
//@   ensures let k := old(wcount) in wpageid[k] == pageat(p).id && wflags[k] == pageat(p).flags && wlen[k] == len(p) && wtxid[k] == metaof(pageat(p)).txid && wroot[k] == metaof(pageat(p)).root.root && wfreelist[k] == metaof(pageat(p)).freelist && wpgid[k] == metaof(pageat(p)).pgid && wvalid[k] == metavalid(metaof(pageat(p)))
//@   ensures forall j int :: j != old(wcount) ==> wpageid[j] == old(wpageid[j]) && wflags[j] == old(wflags[j]) && wlen[j] == old(wlen[j]) && wtxid[j] == old(wtxid[j]) && wroot[j] == old(wroot[j]) && wfreelist[j] == old(wfreelist[j]) && wpgid[j] == old(wpgid[j]) && wvalid[j] == old(wvalid[j])
//@   modifies wcount, wbytes, wpageid, wflags, wtxid, wroot, wfreelist, wpgid, wvalid, wlen

//@ func io.NewSectionReader
//@   trusted
//@   ensures result != nil && sroff == off && srlen == n && srfile == ifaceref(r)
//@   modifies sroff, srlen, srfile

//@ func io.CopyN
//@   trusted
//@   returns (written, err)
//@   ensures copyn == n && 0 <= written && written <= n && wbytes == old(wbytes) + written
//@   ensures err == nil ==> written == n
//@   modifies copyn, wbytes

// ---------------------------------------------------------------- plain file access of the repair tools (C20, A-os-io)
//@ ghost var osopenpath string     -- path of the most recent os.Open / os.OpenFile
//@ ghost var osopenflag int        -- flag of the most recent os.OpenFile (os.Open: O_RDONLY)
//@ ghost var fwcount int           -- number of (*os.File).WriteAt calls so far
//@ ghost var fwoff int             -- offset of the most recent (*os.File).WriteAt
//@ ghost var fwlen int             -- length of the most recent (*os.File).WriteAt
//@ ghost var fwfile int            -- file of the most recent (*os.File).WriteAt
//@ ghost var fwpath string         -- path under which that file was opened
//@ ghost var fwpageid int         -- page id in the header at the start of the buffer of the most recent WriteAt
//@ ghost var fwtxid int           -- fields of the meta behind that header (meaningful when the page is a meta page)
//@ ghost var fwroot int
//@ ghost var fwsequence int
//@ ghost var fwfreelist int
//@ ghost var fwpgid int
//@ ghost var fwmagic int
//@ ghost var fwversion int
//@ ghost var fwpagesize int
//@ ghost var fwflags int
//@ ghost var fwsumok bool
//@ ghost var fwoverflow int
//@ ghost field os.File.gpath string   -- path under which a file was opened
//@ ghost field os.File.gflag int      -- flags it was opened with

//@ func os.Open
//@   trusted
//@   returns (f, err)
//@   ensures osopenpath == name && osopenflag == 0
//@   ensures err == nil ==> f != nil && fresh(f) && f.gpath == name && f.gflag == 0
//@   modifies osopenpath, osopenflag, all("os.File.gpath"), all("os.File.gflag")

//@ func os.OpenFile
//@   trusted
//@   returns (f, err)
//@   ensures osopenpath == name && osopenflag == flag
//@   ensures err == nil ==> f != nil && fresh(f) && f.gpath == name && f.gflag == flag
//@   ensures forall g *os.File :: allocated(g) ==> g.gpath == old(g.gpath) && g.gflag == old(g.gflag)
//@   modifies osopenpath, osopenflag, all("os.File.gpath"), all("os.File.gflag")

//@ func os.(*File).WriteAt
//@   trusted
//@   returns (n, err)
//@   requires [writable] f.gflag != 0          -- never write through a descriptor opened O_RDONLY
//@   ensures fwcount == old(fwcount) + 1 && fwoff == off && fwlen == len(b) && fwfile == f && fwpath == f.gpath
//@   ensures let m := metaof(pageat(b)) in fwpageid == pageat(b).id && fwoverflow == pageat(b).overflow && fwtxid == m.txid && fwroot == m.root.root && fwsequence == m.root.sequence && fwfreelist == m.freelist && fwpgid == m.pgid && fwmagic == m.magic && fwversion == m.version && fwpagesize == m.pageSize && fwflags == m.flags && fwsumok == (m.checksum == msum(m))
//@   modifies fwcount, fwoff, fwlen, fwfile, fwpath, fwpageid, fwoverflow, fwtxid, fwroot, fwsequence, fwfreelist, fwpgid, fwmagic, fwversion, fwpagesize, fwflags, fwsumok

//@ func io.ReadFull
//@   trusted
//@   returns (n, err)
//@   ensures err == nil ==> n == len(buf)
//@   modifies elems(buf)

//@ ghost var createdpath string    -- path of the most recent os.Create
//@ ghost var ncreated int          -- number of os.Create calls
//@ ghost var copydst int           -- destination of the most recent io.Copy (interface payload)
//@ ghost var copysrc int           -- source of the most recent io.Copy

//@ func os.Create
//@   trusted
//@   returns (f, err)
//@   ensures createdpath == name && ncreated == old(ncreated) + 1
//@   ensures err == nil ==> f != nil && fresh(f) && f.gpath == name && f.gflag == 578
//@   ensures forall g *os.File :: allocated(g) ==> g.gpath == old(g.gpath) && g.gflag == old(g.gflag)
//@   modifies createdpath, ncreated, all("os.File.gpath"), all("os.File.gflag")

//@ func io.Copy
//@   trusted
//@   returns (written, err)
//@   ensures copydst == ifaceref(dst) && copysrc == ifaceref(src) && written >= 0
//@   modifies copydst, copysrc

//@ func os.Stat
//@   trusted
//@   modifies nothing

//@ func os.IsNotExist
//@   trusted
//@   modifies nothing
