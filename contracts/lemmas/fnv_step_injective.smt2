; props C11
; lemma fnv-single-byte: one FNV-1a-64 step h' = (h xor b) * prime is injective in the byte b for a fixed
; state h, and injective in the state h for a fixed byte b. Hence two inputs of equal length that differ
; in exactly one byte have different FNV-1a-64 sums: the states differ right after the differing byte and
; stay different through every later step. expected: unsat
(set-logic QF_BV)
(declare-const h1 (_ BitVec 64))
(declare-const h2 (_ BitVec 64))
(declare-const b1 (_ BitVec 8))
(declare-const b2 (_ BitVec 8))
(define-fun step ((h (_ BitVec 64)) (b (_ BitVec 8))) (_ BitVec 64) (bvmul (bvxor h ((_ zero_extend 56) b)) #x00000100000001b3))
(assert (or (and (= h1 h2) (not (= b1 b2)) (= (step h1 b1) (step h2 b2)))
            (and (= b1 b2) (not (= h1 h2)) (= (step h1 b1) (step h2 b2)))))
(check-sat)
