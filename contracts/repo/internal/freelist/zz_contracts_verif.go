//go:build verif

package freelist

// Contracts for package freelist (machine-checked by /verif/bbvc; see /verif/DESIGN.md §3).
// This file contains comments only.

//@ pure func infree(f *array, p common.Pgid) bool = exists wfree int :: 0 <= wfree && wfree < len(f.ids) && f.ids[wfree] == p
//@ pure func wfIds(f *array) bool = (forall i int, j int :: 0 <= i && i <= j && j < len(f.ids) ==> f.ids[j] - f.ids[i] >= j - i) && (forall i int :: 0 <= i && i < len(f.ids) ==> f.ids[i] >= 2)

//@ func (*array).Allocate
//@   props C09 C06
//@   requires wfIds(f) && n >= 1
//@   ensures [range] result == 0 || result >= 2
//@   ensures [wasfree] result != 0 ==> forall k int :: 0 <= k && k < n ==> old(infree(f, result + k))
//@   witness [wasfree] wfree := rangeindex + 2 - n + k
//@   loop 0 invariant [idx] 0-1 <= rangeindex && rangeindex < len(f.ids)
//@   loop 0 invariant [init0] rangeindex == 0-1 ==> previd == 0 && initial == 0
//@   loop 0 invariant [run] rangeindex >= 0 ==> previd == f.ids[rangeindex] && initial <= previd && 0 <= rangeindex - (previd - initial) && f.ids[rangeindex - (previd - initial)] == initial && previd - initial + 1 < n && initial >= 2 && (rangeindex - (previd - initial) == 0 || f.ids[rangeindex - (previd - initial)] - f.ids[rangeindex - (previd - initial) - 1] >= 2)
//@   loop 0 invariant [norun] forall s int :: 0 <= s && s + n <= rangeindex + 1 ==> f.ids[s+n-1] - f.ids[s] != n - 1
