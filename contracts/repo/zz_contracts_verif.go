//go:build verif

package bbolt

// Contracts for package bbolt (machine-checked by /verif/bbvc; see /verif/DESIGN.md §3).
// This file contains comments only.

// ---------------------------------------------------------------- C18: size arithmetic

//@ pure func growsz(db *DB, mmapSize int, sz int) int = mmapSize <= db.AllocSize ? mmapSize : sz + db.AllocSize

//@ func (*DB).growSize
//@   props C18
//@   requires growSize >= 0 && db.AllocSize >= 0 && growSize <= 2305843009213693952 && db.AllocSize <= 2305843009213693952
//@   ensures result == growsz(db, mmapSize, growSize)
//@   modifies nothing

//@ func (*DB).mmapSize
//@   returns (r, err)
//@   props C18 C11
//@   requires db.pageSize >= 1 && db.pageSize <= 16777216 && size >= 0
//@   ensures [ok] size <= common.MaxMapSize ==> err == nil
//@   ensures [toobig] size > common.MaxMapSize ==> err != nil
//@   ensures [cover] err == nil ==> r >= size && r >= 32768 && r <= common.MaxMapSize
//@   ensures [small] size <= 1073741824 ==> err == nil && r <= 1073741824 && (r == 32768 || r < 2 * size)
//@   modifies nothing
//@   loop 0 invariant 15 <= i && i <= 31 && (i > 15 ==> size > pow2(i - 1))

//@ func (*DB).fileSize
//@   trusted
//@   returns (sz, err)
//@   props C18
//@   ensures err == nil ==> sz == flen && flen >= 2 * db.pageSize
//@   ensures err != nil ==> sz == 0
//@   modifies nothing

//@ func (*DB).grow
//@   returns (err)
//@   props C18 C01
//@   requires sz >= 0 && sz <= 2305843009213693952 && db.AllocSize >= 0 && db.AllocSize <= 2305843009213693952 && db.datasz >= sz
//@   ensures [maxsize] db.MaxSize > 0 && sz <= db.MaxSize ==> flen <= max(old(flen), db.MaxSize)
//@   ensures [nogrowth] sz <= old(flen) ==> flen == old(flen)
//@   ensures [grown] err == nil && !db.NoGrowSync && !db.readOnly ==> flen >= sz
//@   ensures [monotone] flen >= old(flen) || (err == nil && flen >= sz)

//@ func mmap
//@   returns (err)
//@   props C18 C17
//@   requires sz > 0
//@   ensures err == nil ==> db.datasz == sz
//@   ensures err != nil ==> db.datasz == old(db.datasz)

//@ func (*DB).mmap
//@   opaque
//@   returns (err)
//@   props C18
//@   ensures err == nil ==> db.datasz >= minsz
//@   ensures db.rwtx == old(db.rwtx) && db.pageSize == old(db.pageSize) && db.MaxSize == old(db.MaxSize) && db.AllocSize == old(db.AllocSize)
//@   ensures db.rwtx != nil ==> db.rwtx.meta == old(db.rwtx.meta) && db.rwtx.meta.pgid == old(db.rwtx.meta.pgid)
//@   modifies db.dataref, db.data, db.datasz, db.meta0, db.meta1, all("node.key"), all("node.inodes"), all("Inode.key"), all("Inode.value"), allelems("byte")

//@ func (*DB).allocate
//@   returns (p, err)
//@   props C18 C06 C08
//@   requires db.pageSize >= 512 && db.pageSize <= 16777216 && db.rwtx != nil && db.rwtx.meta != nil && count >= 1 && count <= 4294967295
//@   requires (db.rwtx.meta.pgid + count + 1) * db.pageSize <= 2305843009213693952 && db.AllocSize >= 0 && db.AllocSize <= 2305843009213693952 && db.datasz >= 0 && db.MaxSize >= 0
//@   skip db.go:1173 because the page pool (sync.Pool with New = make([]byte, pageSize), set in Open) yields non-empty buffers; sync.Pool is outside the subset
//@   ensures [hwm] err == nil ==> db.rwtx.meta.pgid == old(db.rwtx.meta.pgid) || db.rwtx.meta.pgid == old(db.rwtx.meta.pgid) + count
//@   ensures [maxsize] err == nil && db.MaxSize > 0 && db.rwtx.meta.pgid != old(db.rwtx.meta.pgid) ==> (db.rwtx.meta.pgid + 1) * db.pageSize <= db.MaxSize
//@   ensures [mapped] err == nil && db.rwtx.meta.pgid != old(db.rwtx.meta.pgid) ==> (db.rwtx.meta.pgid + 1) * db.pageSize <= db.datasz
//@   ensures [errclean] err != nil ==> db.rwtx.meta.pgid == old(db.rwtx.meta.pgid)
//@   ensures [page] err == nil ==> p != nil && p.overflow == count - 1 && (p.id >= 2 || p.id == old(db.rwtx.meta.pgid))
//@   ensures [fresh] err == nil && db.rwtx.meta.pgid != old(db.rwtx.meta.pgid) ==> p.id == old(db.rwtx.meta.pgid)

// ---------------------------------------------------------------- C11: meta selection and page-size probing

//@ ghost var lastpage int      -- the page most recently decoded from a read buffer (pageInBuffer)

//@ func (*DB).pageInBuffer
//@   trusted
//@   ensures result != nil && lastpage == result
//@   modifies lastpage

//@ func (*DB).meta
//@   props C11 C01 C06 C03
//@   requires db.meta0 != nil && db.meta1 != nil
//@   panics when !metavalid(db.meta0) && !metavalid(db.meta1)
//@   ensures [one] result == db.meta0 || result == db.meta1
//@   ensures [valid] metavalid(result)
//@   ensures [newest] metavalid(db.meta0) && metavalid(db.meta1) ==> result.txid >= db.meta0.txid && result.txid >= db.meta1.txid
//@   ensures [fallback0] !metavalid(db.meta1) ==> result == db.meta0
//@   ensures [fallback1] !metavalid(db.meta0) ==> result == db.meta1
//@   modifies nothing

//@ func (*DB).getPageSizeFromFirstMeta
//@   returns (sz, canRead, err)
//@   props C11
//@   ensures [valid] err == nil ==> metavalid(metaof(lastpage)) && sz == metaof(lastpage).pageSize && lastreadoff == 0 && canRead
//@   ensures [invalid] err != nil ==> err == berrors.ErrInvalid && sz == 0
//@   ensures [probe] nreads == old(nreads) + 1 && lastreadoff == 0
//@   ensures [accept] canRead && metavalid(metaof(lastpage)) ==> err == nil
//@   modifies nreads, lastreadoff, lastpage

//@ func (*DB).getPageSizeFromSecondMeta
//@   returns (sz, canRead, err)
//@   props C11
//@   ensures [valid] err == nil ==> metavalid(metaof(lastpage)) && sz == metaof(lastpage).pageSize && canRead
//@   ensures [probes] err == berrors.ErrInvalid && flen > 16778240 && nreads > old(nreads) ==> nreads == old(nreads) + 15
//@   ensures [noreadnocan] nreads == old(nreads) ==> !canRead
//@   modifies nreads, lastreadoff, lastpage
//@   loop 0 invariant 0 <= i && i <= 15 && nreads == old(nreads) + i && fileSize == flen
//@   loop 0 invariant nreads == old(nreads) ==> !metaCanRead

//@ func (*DB).getPageSize
//@   returns (sz, err)
//@   props C11
//@   ensures [invalid] err != nil ==> err == berrors.ErrInvalid && sz == 0
//@   ensures [frommeta] err == nil ==> sz == db.pageSize || (metavalid(metaof(lastpage)) && sz == metaof(lastpage).pageSize)
//@   modifies nreads, lastreadoff, lastpage
