//go:build verif

package bbolt

// Contracts for package bbolt (machine-checked by /verif/bbvc; see /verif/DESIGN.md §3).
// This file contains comments only.

//@ func (*DB).growSize
//@   props C18
//@   ensures old(mmapSize) <= db.AllocSize ==> result == old(mmapSize)
//@   ensures old(mmapSize) > db.AllocSize ==> result == wrapint(old(growSize) + db.AllocSize)
//@   modifies nothing
